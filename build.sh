#!/bin/sh
# Builds /verif/bin/vpcheck offline from the module cache.
set -e
cd /verif/engine
export GOFLAGS=-mod=mod GOPROXY=off GOSUMDB=off GOTOOLCHAIN=local
go1.26.8 build -o /verif/bin/vpcheck ./cmd/vpcheck
