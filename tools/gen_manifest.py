#!/usr/bin/env python3
# Regenerates /verif/MANIFEST.json from tools/manifest_src.json (claimed properties + texts) and
# properties.jsonl (everything not claimed is listed under not_applicable with its reason).
import json
src=json.load(open('/verif/tools/manifest_src.json'))
props=[json.loads(l)["id"] for l in open("/verif/properties.jsonl")]
m={"version":1,"setup_cmd":"/verif/build.sh",
 "hooks":{"guard":"verif","enable":"no source hooks: harnesses and the vp API are injected with go/packages overlays and `go test -overlay` (files under /verif/harness); nothing in /repo is patched","baseline_off_cmd":"/verif/tools/repo_tests.sh","source_commits":[],"add_only":True},
 "engines":[{"name":"vpcheck","path":"/verif/engine","serves_properties":sorted(src["claimed"].keys()),"kind_free_text":"bounded symbolic executor for go/ssa (fork of x/tools ssa/interp with SMT terms for scalars and bytes), z3 over a pipe, native replay of models through go test -overlay"}],
 "checks":[],"not_applicable":[],
 "notes":"Every check: solver-based bounded symbolic execution of the real SSA of /repo, regenerated on every run. Exit 0 held; 1 VIOLATION (natively reproduced); 2 INCONCLUSIVE (never success); 3 ENCODING-MISMATCH."}
def technique(pid):
    # the solver's role differs between properties: say so, from the last committed evidence
    try:
        q=json.load(open(f"/verif/evidence/{pid}.json"))["coverage"]["queries"]
    except Exception:
        q={"unsat":1}
    if q.get("unsat",0)>0:
        return ("bounded symbolic execution of the Go SSA of /repo; branch infeasibility and assertion verdicts over the symbolic bytes/integers are decided by SMT "
                "(z3 4.8 over a pipe, QF_BV; a sample of the unsat queries is re-decided by z3 5.1 and cvc5 on every run); feasible sides are witnessed by evaluated or solver models; "
                "counterexamples and witnesses are replayed against the native build")
    return ("bounded symbolic execution of the Go SSA of /repo over a harness whose symbolic inputs are independent booleans and finite choices (rule shapes, call sequences, match bits, injected faults): "
            "every branch has both sides feasible (shown by evaluated witnesses), so at these bounds the verdict comes from exhaustive exploration of all symbolic paths with the assertion evaluated on each, "
            "and no SMT query is needed; the same engine and solver decide the byte-level properties; counterexamples and witnesses are replayed against the native build")

for pid in props:
    if pid in src["claimed"]:
        c=src["claimed"][pid]
        m["checks"].append({"property_id":pid,"quick_cmd":f"/verif/bin/vpcheck run --property {pid} --tier quick","thorough_cmd":f"/verif/bin/vpcheck run --property {pid} --tier thorough",
          "evidence_file":f"/verif/evidence/{pid}.json","replay_cmd_template":"/verif/bin/vpcheck replay {path}","engine":"vpcheck",
          "level_claimed":{"category":"model_checking","text":c["text"],"design_ref":f"DESIGN.md §4 {pid}"},"level_note":c["note"],
          "technique":technique(pid)})
    else:
        m["not_applicable"].append({"property_id":pid,"reason":src["not_applicable"].get(pid,"check under construction in this session; no claim is made yet")})
json.dump(m,open("/verif/MANIFEST.json","w"),indent=1)
print("claimed:",[c["property_id"] for c in m["checks"]])
