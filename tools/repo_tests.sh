#!/bin/sh
# Runs corazawaf/coraza's own test suite (both modules) on /repo's working tree and lists the
# failing tests.  On the pinned tree, under root, exactly two tests fail (they expect a
# permission error root does not get): TestConcurrentWriterFailsOnInit,
# TestSerialWriterFailsOnInitForUnexistingFile.  They are not in BASELINE.json's stable_pass.
cd /repo && go test -vet=off -count=1 ./... 2>&1 | grep -E "^(--- FAIL|FAIL|panic)" 
cd /repo/testing/coreruleset && go test -vet=off -count=1 ./... 2>&1 | grep -E "^(--- FAIL|FAIL|panic)"
echo "repo tests done"
