#!/bin/sh
# try_in_worktree.sh <name> <property> [tier] -- <patch file | -R commit>
# Applies a patch (or the reverse of a /repo commit) in a scratch worktree of /repo's HEAD under
# /tmp, runs the property's check against that worktree (VERIF_REPO), prints the verdict lines
# and removes the worktree.  /repo itself is not touched; evidence goes to out/trial-evidence.
name=$1; prop=$2; tier=${3:-quick}; shift 3; shift
wt=/tmp/trial_$name
git -C /repo worktree remove --force $wt 2>/dev/null
git -C /repo worktree add -q --detach $wt HEAD || exit 2
if [ "$1" = "-R" ]; then
  git -C /repo show $2 | git -C $wt apply -R || { echo "cannot revert $2"; git -C /repo worktree remove --force $wt; exit 2; }
else
  git -C $wt apply $1 || { echo "patch does not apply"; git -C /repo worktree remove --force $wt; exit 2; }
fi
bin=/verif/bin/vpcheck; [ -x /verif/bin/vpcheck.new ] && bin=/verif/bin/vpcheck.new
VERIF_REPO=$wt $bin run --property $prop --tier $tier > /verif/out/trial_$name.log 2>&1
code=$?
git -C /repo worktree remove --force $wt
echo "$name vs $prop: exit=$code"
grep "^VIOLATION\|^KNOWN\|^INCONCLUSIVE\|^ENCODING\|counterexample\|^OK" /verif/out/trial_$name.log | grep -v KNOWN | cut -c1-220 | head -6
