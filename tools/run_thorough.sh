#!/bin/sh
# Runs the thorough tier of every claimed property sequentially with a per-property time limit
# (default 45 min); prints one line per property.  PROPS="C05 C06" restricts the list.  Development aid: evidence written by these
# runs is overwritten by the next quick run.
limit=${1:-2700}
cd /verif
for p in ${PROPS:-$(python3 -c "
import json
print(' '.join(c['property_id'] for c in json.load(open('/verif/MANIFEST.json'))['checks']))")}; do
  start=$(date +%s)
  timeout $limit /verif/bin/vpcheck run --property $p --tier thorough > /verif/out/thorough_$p.log 2>&1
  code=$?
  echo "$p exit=$code $(( $(date +%s) - start ))s $(grep -c '^VIOLATION\|^INCONCLUSIVE\|^ENCODING' /verif/out/thorough_$p.log) flagged"
done
