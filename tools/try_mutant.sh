#!/bin/sh
# try_mutant.sh <patch> <property> [tier]: applies a patch to /repo, runs the property's check,
# restores /repo.  Prints the verdict lines.
patch=$1; prop=$2; tier=${3:-quick}
cd /repo && git apply $patch || { echo "patch does not apply"; exit 2; }
cd /verif && /verif/bin/vpcheck run --property $prop --tier $tier > /verif/out/try_$prop.log 2>&1
code=$?
git -C /repo checkout -- .
echo "exit=$code"; grep "^VIOLATION\|^KNOWN\|^INCONCLUSIVE\|^ENCODING\|counterexample\|^OK" /verif/out/try_$prop.log | cut -c1-260
# the evidence file now describes the mutated tree: regenerate it later from the clean tree
