#!/bin/sh
# confirm_mutant.sh <name> <patch.diff> <demo_test.go> <package dir relative to repo root>
# Confirms, in a fresh scratch worktree of /repo's HEAD, that (1) the demo passes on the unchanged
# tree, (2) fails with the patch, (3) the project builds and its own suite passes with the patch
# (only the two always-failing auditlog tests may fail).  Removes the worktree afterwards.
name=$1; patch=$2; demo=$3; pkg=$4
wt=/tmp/cm_$name
export GOFLAGS= GOPROXY=off
git -C /repo worktree remove --force $wt 2>/dev/null
git -C /repo worktree add -q --detach $wt HEAD || exit 2
cp $demo $wt/$pkg/zz_demo_test.go
cd $wt
echo "== demo on unchanged tree"
go test -vet=off -count=1 ./$pkg/ -run "$(grep -o 'func Test[A-Za-z0-9_]*' $demo | sed 's/func //' | paste -sd'|')" > /tmp/cm_$name.base.log 2>&1; echo "exit=$?"
git apply $patch || { echo "PATCH DOES NOT APPLY"; exit 2; }
echo "== demo with patch"
go test -vet=off -count=1 ./$pkg/ -run "$(grep -o 'func Test[A-Za-z0-9_]*' $demo | sed 's/func //' | paste -sd'|')" > /tmp/cm_$name.mut.log 2>&1; echo "exit=$?"
rm $wt/$pkg/zz_demo_test.go
echo "== build + suite with patch"
go build ./... && go test -vet=off -count=1 ./... 2>&1 | grep -E "^(--- FAIL|FAIL|panic)"
(cd testing/coreruleset && go test -vet=off -count=1 ./... 2>&1 | grep -E "^(--- FAIL|FAIL|panic|ok)")
cd /
git -C /repo worktree remove --force $wt
echo "== done $name"
