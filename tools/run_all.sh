#!/bin/sh
# Runs the quick (or $1) command of every claimed property in /verif against /repo, writing
# evidence/<id>.json; prints one status line per property.
tier=${1:-quick}
cd /verif
for p in $(python3 -c "
import json
print(' '.join(c['property_id'] for c in json.load(open('/verif/MANIFEST.json'))['checks']))"); do
  start=$(date +%s)
  /verif/bin/vpcheck run --property $p --tier $tier > /verif/out/run_$p.log 2>&1
  code=$?
  echo "$p exit=$code $(( $(date +%s) - start ))s $(grep -c '^VIOLATION\|^KNOWN-FINDING\|^INCONCLUSIVE\|^ENCODING' /verif/out/run_$p.log) flagged"
done
