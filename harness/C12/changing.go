package coraza

import (
	"github.com/corazawaf/coraza/v3/internal/vp"
)

var vpC12Setters = []struct {
	target string
	tlist  []string
	arg    int // which argument it reads
}{
	{"ARGS:q", nil, 0},
	{"ARGS:q", []string{"trimRight"}, 0}, // a prefix slice of the value: same data pointer, shorter
	{"ARGS:q", []string{"trimLeft"}, 0},  // a suffix slice
	{"ARGS:r", nil, 1},
	{"ARGS:q", []string{"lowercase"}, 0},
}

var vpC12Readers = [][]string{
	{"lowercase"},
	{},
	{"lowercase", "removeNulls"},
	{"length"},
}

// VpC12Changing: a target whose content changes during the phase.  Rule 1 makes some value the
// MATCHED_VAR, rule 2 reads MATCHED_VAR through a transformation list, rule 3 makes another
// value the MATCHED_VAR (possibly a slice of the first: same data pointer, other length; or a
// value of another argument), rule 4 reads MATCHED_VAR through a list sharing all or part of
// rule 2's.  Each reader must see its own list applied to the MATCHED_VAR of that moment.
func VpC12Changing() {
	s1 := vp.Choice("setter1", len(vpC12Setters))
	s3 := vp.Choice("setter3", len(vpC12Setters))
	r2 := vp.Choice("reader2", len(vpC12Readers))
	r4 := vp.Choice("reader4", len(vpC12Readers))
	rule := func(id int, target string, tl []string) string {
		acts := "id:" + vpD(id) + ",phase:1,pass,t:none"
		for _, t := range tl {
			acts += ",t:" + t
		}
		return "SecRule " + target + " \"@vpsee " + vpD(id-1) + "\" \"" + acts + "\"\n"
	}
	conf := "SecRuleEngine On\n" +
		rule(1, vpC12Setters[s1].target, vpC12Setters[s1].tlist) +
		rule(2, "MATCHED_VAR", vpC12Readers[r2]) +
		rule(3, vpC12Setters[s3].target, vpC12Setters[s3].tlist) +
		rule(4, "MATCHED_VAR", vpC12Readers[r4])
	waf := vpBuild("c12ch:"+vpD(s1)+vpD(s3)+vpD(r2)+vpD(r4), conf)
	vpSeeReset()
	for i := 0; i < 4; i++ {
		vpSeeMatch[i] = true
	}
	n := vp.Param("VLEN", 1)
	mid := vp.String("val", n)
	for j := 0; j < len(mid); j++ {
		vp.Assume(mid[j] < 0x80)
	}
	var args [2]string
	args[0] = " A" + mid + "B\x00 " // spaces at both ends, upper case and a NUL: every list matters
	args[1] = "C" + vp.String("val2", n)
	for j := 1; j < len(args[1]); j++ {
		vp.Assume(args[1][j] < 0x80)
	}
	tx := waf.NewTransaction()
	tx.AddGetRequestArgument("q", args[0])
	tx.AddGetRequestArgument("r", args[1])
	tx.ProcessRequestHeaders()
	mv1 := vpApply(vpC12Setters[s1].tlist, args[vpC12Setters[s1].arg])
	mv3 := vpApply(vpC12Setters[s3].tlist, args[vpC12Setters[s3].arg])
	vp.Assert(len(vpSeen[1]) == 1 && vpSeen[1][0] == vpApply(vpC12Readers[r2], mv1), "rule 2 did not see its own transformations of the current MATCHED_VAR")
	vp.Assert(len(vpSeen[3]) == 1 && vpSeen[3][0] == vpApply(vpC12Readers[r4], mv3), "rule 4 did not see its own transformations of the MATCHED_VAR set by rule 3 (stale or foreign cached value)")
	tx.ProcessLogging()
	_ = tx.Close()
	vp.Reached("end")
}
