package coraza

import (
	"github.com/corazawaf/coraza/v3/internal/transformations"
	"github.com/corazawaf/coraza/v3/internal/vp"
)

// vpC12Steps is the reference expansion of a transformation list under multiMatch: the original
// value, then every step's output that differs from the value before it.
func vpC12Steps(names []string, v string, multi bool) []string {
	out := []string{v}
	for _, n := range names {
		f, err := transformations.GetTransformation(n)
		if err != nil {
			panic(err)
		}
		nv, _, err := f(v)
		if err != nil {
			continue
		}
		if nv != v {
			out = append(out, nv)
		}
		v = nv
	}
	if !multi {
		return []string{v}
	}
	return out
}

// VpC12MultiMatch: two rules of one phase over the same target whose transformation lists come
// from a pool with round trips (uppercase,lowercase returns to the input through a different
// intermediate), each with or without multiMatch: every rule sees exactly its own expansion -
// with multiMatch the original and every changed intermediate, also when another rule has
// already cached the final result of the same list.
func VpC12MultiMatch() {
	pool := [][]string{{"uppercase", "lowercase"}, {"lowercase"}, {"lowercase", "uppercase", "lowercase"}, {"uppercase"}}
	var tl [2]int
	var mm [2]bool
	conf := "SecRuleEngine On\n"
	key := "c12mm:"
	for r := 0; r < 2; r++ {
		tl[r] = vp.Choice("tlist", len(pool))
		mm[r] = vp.Choice("multimatch", 2) == 1
		acts := "id:" + vpD(r+1) + ",phase:1,pass"
		for _, t := range pool[tl[r]] {
			acts += ",t:" + t
		}
		if mm[r] {
			acts += ",multiMatch"
			key += "M"
		}
		key += vpD(tl[r])
		conf += "SecRule ARGS \"@vpsee " + vpD(r) + "\" \"" + acts + "\"\n"
	}
	waf := vpBuild(key, conf)
	vpSeeReset()
	v := []string{"abc", "ABC", "aBc", "12"}[vp.Choice("value", 4)]
	tx := waf.NewTransaction()
	tx.AddGetRequestArgument("q", v)
	tx.ProcessRequestHeaders()
	for r := 0; r < 2; r++ {
		vp.Assert(vpMultisetEq(vpSeen[r], vpC12Steps(pool[tl[r]], v, mm[r])), "rule "+vpD(r+1)+" was not evaluated against its own expansion of the value (multiMatch: the original and every changed intermediate)")
	}
	tx.ProcessLogging()
	_ = tx.Close()
	vp.Reached("end")
}
