package coraza

import (
	"github.com/corazawaf/coraza/v3/internal/vp"
)

type vpC12Target struct {
	text string
	sel  func(name string) bool
	name bool // the target exposes the argument names, not the values
}

var vpC12Targets = []vpC12Target{
	{"ARGS", func(string) bool { return true }, false},
	{"ARGS:a", func(n string) bool { return n == "a" }, false},
	{"ARGS_GET", func(string) bool { return true }, false},
	{"ARGS:b", func(n string) bool { return n == "b" }, false},
	{"ARGS_NAMES", func(string) bool { return true }, true},
	{"ARGS_GET:a", func(n string) bool { return n == "a" }, false},
}

var vpC12TLists = [][]string{
	{"lowercase"},
	{"lowercase", "removeNulls"},
	{"hexDecode", "lowercase"}, // hexDecode fails on these values: the error path of the cache
	{"hexDecode"},
	{"removeNulls"},
	{"lowercase", "length"},
	{},
}

// VpC12Cache: two or three rules of one phase over the same and different targets, with full
// or partial sharing of their transformation lists; a request with repeated argument names;
// every iteration order of the argument maps.  Each rule's operator must see exactly the
// multiset { own transformation list applied to v | v selected by its own target }.
func VpC12Cache() {
	nr := vp.Param("RULES", 2)
	var tg [3]int
	var tl [3]int
	key := "c12:"
	conf := "SecRuleEngine On\n"
	for r := 0; r < nr; r++ {
		tg[r] = vp.Choice("target", vp.Param("TARGETS", len(vpC12Targets)))
		tl[r] = vp.Choice("tlist", vp.Param("TLISTS", len(vpC12TLists)))
		key += vpD(tg[r]) + vpD(tl[r])
		acts := "id:" + vpD(r+1) + ",phase:1,pass"
		for _, t := range vpC12TLists[tl[r]] {
			acts += ",t:" + t
		}
		conf += "SecRule " + vpC12Targets[tg[r]].text + " \"@vpsee " + vpD(r) + "\" \"" + acts + "\"\n"
	}
	waf := vpBuild(key, conf)
	vp.SymbolicMapOrder(3, "github.com/corazawaf/coraza/v3/internal/collections")
	vpSeeReset()
	// request: p arguments named a or b with symbolic values
	p := 1 + vp.Choice("nargs", vp.Param("ARGS", 3))
	names := make([]string, p)
	vals := make([]string, p)
	tx := waf.NewTransaction()
	keyA, keyB := "a", "b" // one key string per name, as ExtractGetArguments produces
	for i := 0; i < p; i++ {
		if vp.Choice("name", 2) == 0 {
			names[i] = keyA
		} else {
			names[i] = keyB
		}
		// distinct by construction (upper-case tag + NUL, so that lowercase and removeNulls both
		// matter), plus VLEN arbitrary ASCII bytes
		tail := vp.String("val", vp.Param("VLEN", 0))
		for j := 0; j < len(tail); j++ {
			vp.Assume(tail[j] < 0x80)
		}
		vals[i] = string(rune('A'+i)) + "\x00" + tail
		tx.AddGetRequestArgument(names[i], vals[i])
	}
	tx.ProcessRequestHeaders()
	for r := 0; r < nr; r++ {
		t := vpC12Targets[tg[r]]
		var want []string
		for i := 0; i < p; i++ {
			if !t.sel(names[i]) {
				continue
			}
			src := vals[i]
			if t.name {
				src = names[i]
			}
			want = append(want, vpApply(vpC12TLists[tl[r]], src))
		}
		vp.Assert(vpMultisetEq(vpSeen[r], want), "rule "+vpD(r+1)+" ("+t.text+") was not evaluated against its own transformations of its own target values")
	}
	tx.ProcessLogging()
	_ = tx.Close()
	vp.Reached("end")
}
