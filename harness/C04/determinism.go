package coraza

import (
	"github.com/corazawaf/coraza/v3/internal/corazawaf"
	"github.com/corazawaf/coraza/v3/internal/vp"
)

type vpC04Outcome struct {
	interrupted bool
	ruleID      int
	status      int
	fired       []string // rule ids as strings, in order of MatchedRules
	triples     []string // "ruleid|variable|key|value"
	score       string
}

func vpC04Run(waf *corazawaf.WAF, names, vals []string, where []int) vpC04Outcome {
	tx := waf.NewTransaction()
	query := ""
	for i := range names {
		switch where[i] {
		case 0:
			// query-string arguments go through the request target, as a connector passes them
			if query != "" {
				query += "&"
			}
			query += names[i] + "=" + vals[i]
		case 1:
			tx.AddPostRequestArgument(names[i], vals[i])
		default:
			tx.AddRequestHeader(names[i], vals[i])
		}
	}
	if query != "" {
		tx.ProcessURI("/?"+query, "GET", "HTTP/1.1")
	}
	tx.ProcessRequestHeaders()
	_, _ = tx.ProcessRequestBody()
	var o vpC04Outcome
	if it := tx.Interruption(); it != nil {
		o.interrupted, o.ruleID, o.status = true, it.RuleID, it.Status
	}
	for _, mr := range tx.MatchedRules() {
		id := vpD(mr.Rule().ID())
		o.fired = append(o.fired, id)
		for _, md := range mr.MatchedDatas() {
			o.triples = append(o.triples, id+"|"+md.Variable().Name()+"|"+md.Key()+"|"+md.Value())
		}
	}
	if s := tx.Variables().TX().Get("score"); len(s) > 0 {
		o.score = s[0]
	}
	tx.ProcessLogging()
	_ = tx.Close()
	return o
}

// VpC04Determinism: the same request on the same configuration twice - the second time on a
// transaction object recycled from the first - under independently chosen iteration orders of
// every collection map: interruption, fired rules, match triples (as a multiset) and the
// anomaly counter must coincide.
func VpC04Determinism() {
	confs := vpC04Confs
	_ = confs
	ci := vp.Choice("conf", len(confs))
	_ = ci
	vpC04Body(confs, ci)
}

var vpC04Confs = []string{
	// rules sharing a transformation prefix over overlapping targets, with a counter
	"SecRule ARGS \"@contains x\" \"id:1,phase:2,pass,t:lowercase,setvar:tx.score=+1\"\n" +
		"SecRule ARGS:a \"@contains x\" \"id:2,phase:2,pass,t:lowercase,t:removeNulls,setvar:tx.score=+2\"\n" +
		"SecRule TX:score \"@ge 4\" \"id:3,phase:2,deny,status:403\"\n",
	// the first matching value decides which rule interrupts
	"SecRule ARGS_GET \"@streq X\" \"id:1,phase:2,pass,setvar:tx.score=+1\"\n" +
		"SecRule ARGS \"@streq x\" \"id:2,phase:2,deny,status:401,t:lowercase\"\n" +
		"SecRule REQUEST_HEADERS:a \"@streq x\" \"id:3,phase:2,deny,status:402\"\n",
	// flow state: an allow that only some requests trigger, followed by a deny
	"SecRule ARGS_GET \"@streq x\" \"id:1,phase:1,allow\"\n" +
		"SecRule ARGS \"@streq X\" \"id:2,phase:2,deny,status:403\"\n" +
		"SecRule ARGS:a \"@streq y\" \"id:3,phase:2,pass,skip:1,setvar:tx.score=+1\"\n",
	// names and counts
	"SecRule ARGS_NAMES \"@streq a\" \"id:1,phase:2,pass,setvar:tx.score=+1\"\n" +
		"SecRule &ARGS:a \"@ge 2\" \"id:2,phase:2,pass,setvar:tx.score=+5\"\n" +
		"SecRule ARGS:/^[ab]$/ \"@streq x\" \"id:3,phase:2,pass,t:lowercase,setvar:tx.score=+3\"\n",
	// a chain that reads MATCHED_VAR after a link that several values satisfy
	"SecRule ARGS_GET \"@rx ^[xX]\" \"id:1,phase:2,deny,status:403,chain\"\n" +
		"  SecRule MATCHED_VAR \"@streq x\"\n",
	// captures of a rule that several values satisfy, read by the next rule
	"SecRule ARGS_GET \"@rx ^([xX])\" \"id:1,phase:2,pass,capture\"\n" +
		"SecRule TX:1 \"@streq x\" \"id:2,phase:2,deny,status:403\"\n",
	// more arguments than SecArgumentsLimit
	"SecArgumentsLimit 1\nSecRule ARGS_GET:a \"@rx ^[xX]\" \"id:1,phase:2,deny,status:403\"\n" +
		"SecRule REQBODY_ERROR \"@eq 1\" \"id:2,phase:2,pass,setvar:tx.score=+1\"\n",
}

func vpC04Body(confs []string, ci int) {
	waf := vpBuild("c04:"+vpD(ci), "SecRuleEngine On\nSecRequestBodyAccess On\n"+confs[ci])
	vp.SymbolicMapOrder(3, "github.com/corazawaf/coraza/v3/internal/collections", "github.com/corazawaf/coraza/v3/internal/url")
	p := 2 + vp.Choice("nargs", vp.Param("ARGS", 2))
	names := make([]string, p)
	vals := make([]string, p)
	where := make([]int, p)
	pool := []string{"a", "b", "A"}
	for i := 0; i < p; i++ {
		names[i] = pool[vp.Choice("name", vp.Param("NAMES", 3))]
		where[i] = vp.Choice("where", vp.Param("WHERE", 3))
		c := vp.Byte("value")
		vp.Assume(c == 'x' || c == 'X' || c == 'y')
		vals[i] = string([]byte{c})
	}
	o1 := vpC04Run(waf, names, vals, where)
	// second run on the recycled transaction, in the canonical (insertion) order: if every order
	// agrees with the canonical one, all orders agree with each other
	vp.SymbolicMapOrder(0)
	o2 := vpC04Run(waf, names, vals, where)
	tag := " (configuration " + vpD(ci) + ")"
	vp.Assert(o1.interrupted == o2.interrupted && o1.ruleID == o2.ruleID && o1.status == o2.status, "interruption differs between two runs of the same request"+tag)
	vp.Assert(vpMultisetEq(o1.fired, o2.fired), "set of fired rules differs between two runs of the same request"+tag)
	vp.Assert(vpMultisetEq(o1.triples, o2.triples), "matched (variable, key, value) triples differ between two runs of the same request"+tag)
	vp.Assert(o1.score == o2.score, "anomaly counter differs between two runs of the same request"+tag)
	vp.Reached("end")
}

// VpC04LongLived: a request served by a WAF that has just served a different request (same
// configuration, recycled transaction object) has the outcome it has on a brand-new WAF.
func VpC04LongLived() {
	confs := vpC04Confs
	ci := vp.Choice("conf", len(confs))
	waf := vpBuild("c04:"+vpD(ci), "SecRuleEngine On\nSecRequestBodyAccess On\n"+confs[ci])
	fresh := vpBuild("c04fresh:"+vpD(ci), "SecRuleEngine On\nSecRequestBodyAccess On\n"+confs[ci])
	p := 2
	names := []string{"a", "b"}
	where := []int{0, vp.Choice("where", 2)}
	vals1 := make([]string, p)
	vals2 := make([]string, p)
	for i := 0; i < p; i++ {
		c := vp.Byte("value1")
		vp.Assume(c == 'x' || c == 'X' || c == 'y')
		vals1[i] = string([]byte{c})
		d := vp.Byte("value2")
		vp.Assume(d == 'x' || d == 'X' || d == 'y')
		vals2[i] = string([]byte{d})
	}
	_ = vpC04Run(waf, names, vals1, where)
	o3 := vpC04Run(waf, names, vals2, where)
	o4 := vpC04Run(fresh, names, vals2, where)
	vp.Assert(o3.interrupted == o4.interrupted && o3.ruleID == o4.ruleID && o3.status == o4.status, "interruption differs between a long-lived and a fresh WAF")
	vp.Assert(vpMultisetEq(o3.fired, o4.fired), "fired rules differ between a long-lived and a fresh WAF")
	vp.Assert(vpMultisetEq(o3.triples, o4.triples), "matched triples differ between a long-lived and a fresh WAF")
	vp.Assert(o3.score == o4.score, "anomaly counter differs between a long-lived and a fresh WAF")
	vp.Reached("end")
}
