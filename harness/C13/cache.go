package coraza

import (
	"github.com/corazawaf/coraza/v3/internal/corazawaf"
	"github.com/corazawaf/coraza/v3/internal/memoize"
	"github.com/corazawaf/coraza/v3/internal/seclang"
	"github.com/corazawaf/coraza/v3/internal/vp"
)

// Configurations that use the string S in different roles (a phrase list, a regex key, a REST
// path, a data-set name with different contents, a relevant-status pattern, a ctl regex key).
func vpC13Roles(s string) []string {
	return []string{
		"SecRule ARGS \"@pm " + s + "\" \"id:1,phase:1,deny,status:401\"\n",
		"SecRule ARGS:/" + s + "/ \"@streq v\" \"id:1,phase:1,deny,status:402\"\n",
		"SecRule ARGS \"@restpath " + s + "\" \"id:1,phase:1,deny,status:403\"\n",
		"SecDataset " + s + " `\n" + s + "\n`\nSecRule ARGS \"@pmFromDataset " + s + "\" \"id:1,phase:1,deny,status:404\"\n",
		"SecDataset " + s + " `\nxyz\n`\nSecRule ARGS \"@pmFromDataset " + s + "\" \"id:1,phase:1,deny,status:405\"\n",
		"SecAuditLogRelevantStatus " + s + "\nSecRule ARGS \"@streq " + s + "\" \"id:1,phase:1,deny,status:406\"\n",
		"SecAction \"id:2,phase:1,pass,ctl:ruleRemoveTargetById=1;ARGS:/" + s + "/\"\nSecRule ARGS \"@streq v\" \"id:1,phase:1,deny,status:407\"\n",
		"SecRule ARGS|!ARGS:/" + s + "/ \"@streq v\" \"id:1,phase:1,deny,status:408\"\n",
		"SecRule ARGS \"@rx " + s + "\" \"id:1,phase:1,deny,status:409\"\n",
		// a regex key on a collection whose keys are lower-cased (the pattern is lower-cased too)
		"SecRule REQUEST_HEADERS:/" + s + "/ \"@streq v\" \"id:1,phase:1,deny,status:410\"\n",
	}
}

func vpC13Build(conf string) (*corazawaf.WAF, error) {
	waf := corazawaf.NewWAF()
	p := seclang.NewParser(waf)
	if err := p.FromString("SecRuleEngine On\n" + conf); err != nil {
		return nil, err
	}
	return waf, nil
}

func vpC13Probe(waf *corazawaf.WAF, name, val string) (int, int) {
	tx := waf.NewTransaction()
	tx.AddGetRequestArgument(name, val)
	tx.AddRequestHeader(name, val)
	tx.ProcessRequestHeaders()
	st, n := 0, len(tx.MatchedRules())
	if it := tx.Interruption(); it != nil {
		st = it.Status
	}
	tx.ProcessLogging()
	_ = tx.Close()
	return st, n
}

// VpC13Cache: WAF B is built after WAF A in the same process (sharing the pattern cache), A
// using the same string in another role and, optionally, being closed before B is probed.  B's
// construction must succeed and B must answer every probe as when it is built alone with an
// empty cache.
func VpC13Cache() {
	s := []string{"abc", "a.c", "u{id}", "Abc"}[vp.Choice("string", 4)]
	roles := vpC13Roles(s)
	ra := vp.Choice("roleA", len(roles))
	rb := vp.Choice("roleB", len(roles))
	closeA := vp.Choice("closeA", 2) == 1
	names := []string{"abc", "k", "u42", "u{id}"}
	vals := []string{"abc", "v", "u42", "xyz", "a-c", "u{id}"}
	name := names[vp.Choice("name", vp.Param("NAMES", 3))]
	val := vals[vp.Choice("value", vp.Param("VALS", 4))]

	// B alone, empty cache
	memoize.Reset()
	alone, err := vpC13Build(roles[rb])
	vp.Assert(err == nil, "configuration rejected when built alone")
	st0, n0 := vpC13Probe(alone, name, val)
	_ = alone.Close()

	// A first, then B, sharing the cache
	memoize.Reset()
	a, err := vpC13Build(roles[ra])
	vp.Assert(err == nil, "configuration A rejected")
	_, _ = vpC13Probe(a, name, val)
	b, err := vpC13Build(roles[rb])
	vp.Assert(err == nil, "construction of a WAF failed because another WAF used the same string in another role")
	if closeA {
		_ = a.Close()
	}
	st1, n1 := vpC13Probe(b, name, val)
	vp.Assert(st1 == st0 && n1 == n0, "a WAF behaves differently after another WAF was built in the same process")
	// A itself must be unaffected by B
	if !closeA {
		a2, err := vpC13Build(roles[ra])
		vp.Assert(err == nil, "configuration A rejected the second time")
		sa, na := vpC13Probe(a, name, val)
		sb, nb := vpC13Probe(a2, name, val)
		vp.Assert(sa == sb && na == nb, "two WAFs built from the same configuration disagree")
	}
	vp.Reached("end")
}

// VpC13Memoize: the real memoize.Do / Release against a reference map model, for every
// sequence of OPS operations with solver-chosen keys and owners: Do returns the value of the
// first surviving writer of its key; Release(owner) drops exactly the entries no other owner
// holds.
func VpC13Memoize() {
	memoize.Reset()
	type ent struct {
		val    int
		owners [3]bool
	}
	ref := map[string]*ent{}
	n := vp.Param("OPS", 4)
	for op := 0; op < n; op++ {
		ow := 1 + vp.Choice("owner", 2)
		if vp.Choice("kind", 3) == 2 {
			memoize.Release(uint64(ow))
			for k, e := range ref {
				e.owners[ow] = false
				if !e.owners[1] && !e.owners[2] {
					delete(ref, k)
				}
			}
			continue
		}
		kb := vp.Byte("key")
		vp.Assume(kb == 'a' || kb == 'b')
		key := string([]byte{kb})
		m := memoize.NewMemoizer(uint64(ow))
		called := false
		got, err := m.Do(key, func() (any, error) {
			called = true
			return op, nil
		})
		vp.Assert(err == nil, "Do returned an error")
		e, ok := ref[key]
		if !ok {
			vp.Assert(called && got.(int) == op, "Do on an absent key did not build and return the new value")
			e = &ent{val: op}
			ref[key] = e
		} else {
			vp.Assert(!called && got.(int) == e.val, "Do on a cached key did not return the first surviving writer's value")
		}
		e.owners[ow] = true
	}
	vp.Reached("end")
}
