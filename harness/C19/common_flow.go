package coraza

import (
	"github.com/corazawaf/coraza/v3/experimental/plugins/plugintypes"
	"github.com/corazawaf/coraza/v3/internal/corazawaf"
	"github.com/corazawaf/coraza/v3/internal/operators"
	"github.com/corazawaf/coraza/v3/internal/seclang"
	"github.com/corazawaf/coraza/v3/internal/vp"
)

// @vprec <n>: a recording stub operator.  It appends n to vpEvalLog each time it is evaluated
// and answers with the n-th match bit chosen by the harness.
var (
	vpEvalLog  []int
	vpMatchBit [16]bool
)

type vpRecOp struct{ n int }

func (o *vpRecOp) Evaluate(_ plugintypes.TransactionState, _ string) bool {
	vpEvalLog = append(vpEvalLog, o.n)
	return vpMatchBit[o.n]
}

func init() {
	operators.Register("vprec", func(options plugintypes.OperatorOptions) (plugintypes.Operator, error) {
		n := 0
		for i := 0; i < len(options.Arguments); i++ {
			n = n*10 + int(options.Arguments[i]-'0')
		}
		return &vpRecOp{n: n}, nil
	})
}

func vpBuildWAF(key, conf string) *corazawaf.WAF {
	return vp.Setup(key, func() any {
		waf := corazawaf.NewWAF()
		p := seclang.NewParser(waf)
		if err := p.FromString(conf); err != nil {
			panic("harness configuration rejected: " + err.Error() + "\n" + conf)
		}
		return waf
	}).(*corazawaf.WAF)
}

func vpDigit(n int) string { return string(rune('0' + n)) }

// vpDrivePhases runs the five phases in order and returns, per phase, the ids evaluated.
func vpDrivePhases(tx *corazawaf.Transaction) [6][]int {
	var per [6][]int
	mark := func(p int) {
		per[p] = append([]int(nil), vpEvalLog...)
		vpEvalLog = vpEvalLog[:0]
	}
	vpEvalLog = vpEvalLog[:0]
	tx.AddRequestHeader("Host", "h")
	tx.AddGetRequestArgument("a", "1")
	tx.ProcessRequestHeaders()
	mark(1)
	_, _ = tx.ProcessRequestBody()
	mark(2)
	tx.AddResponseHeader("Content-Type", "text/plain")
	tx.ProcessResponseHeaders(200, "HTTP/1.1")
	mark(3)
	_, _ = tx.ProcessResponseBody()
	mark(4)
	tx.ProcessLogging()
	mark(5)
	return per
}

func vpSameInts(a, b []int) bool {
	if len(a) != len(b) {
		return false
	}
	for i := range a {
		if a[i] != b[i] {
			return false
		}
	}
	return true
}
