package coraza

import (
	"github.com/corazawaf/coraza/v3/experimental/plugins/plugintypes"
	"github.com/corazawaf/coraza/v3/internal/corazawaf"
	"github.com/corazawaf/coraza/v3/internal/seclang"
	"github.com/corazawaf/coraza/v3/internal/vp"
	"github.com/corazawaf/coraza/v3/types"
)

// recording audit writer and error callback
type vpAuditRec struct {
	logs []plugintypes.AuditLog
}

func (w *vpAuditRec) Init(plugintypes.AuditLogConfig) error { return nil }
func (w *vpAuditRec) Write(al plugintypes.AuditLog) error {
	w.logs = append(w.logs, al)
	return nil
}
func (w *vpAuditRec) Close() error { return nil }

var vpCbIDs []int

type vpFlag struct {
	text       string
	log, audit bool
}

// the parser's default actions are "log,auditlog,pass": flags apply on top of them, in order
var vpC19Flags = []vpFlag{
	{"", true, true},
	{"nolog", false, false},
	{"nolog,auditlog", false, true},
	{"log,noauditlog", true, false},
	{"noauditlog", true, false},
	{"nolog,log", true, true},
}

// VpC19Audit: one audit record iff the (configured or ctl-switched) audit engine is On, or
// RelevantOnly with the real / would-be / response status matching the relevant-status
// pattern; under part K the record lists exactly the fired audit-enabled rules; the error
// callback fires once per fired rule with logging enabled.
func VpC19Audit() {
	modes := []string{"On", "Off", "RelevantOnly"}
	mode := vp.Choice("auditengine", 3)
	ctl := vp.Choice("ctl", vp.Param("CTL", 4)) // 0 none, 1..3 switch audit engine in phase 1
	detect := vp.Choice("detectiononly", 2) == 1
	pat := []string{"^5", "^40[34]$"}[vp.Choice("pattern", 2)]
	parts := []string{"ABHKZ", "ABHZ", "ABKZ", "ABCZ"}[vp.Choice("parts", vp.Param("PARTS", 4))]
	f1 := vp.Choice("flags1", vp.Param("FLAGS", len(vpC19Flags)))
	f2 := vp.Choice("flags2", vp.Param("FLAGS", len(vpC19Flags)))
	disr := []string{"pass", "deny,status:403", "deny,status:500"}
	d2 := vp.Choice("disruptive", 3)
	disr1 := []string{"pass", "deny,status:404"}
	d1 := vp.Choice("disruptive1", vp.Param("D1", 2)) // the first rule may be disruptive too: the first match decides
	conf := "SecRuleEngine On\n"
	if detect {
		conf = "SecRuleEngine DetectionOnly\n"
	}
	conf += "SecAuditEngine " + modes[mode] + "\nSecAuditLogRelevantStatus \"" + pat + "\"\nSecAuditLogParts " + parts + "\n"
	if ctl > 0 {
		conf += "SecAction \"id:50,phase:1,pass,nolog,ctl:auditEngine=" + modes[ctl-1] + ",ctl:auditLogParts=+E\"\n"
	}
	join := func(flags, rest string) string {
		if flags == "" {
			return rest
		}
		return flags + "," + rest
	}
	// both rules live in phase 2, the phase the parser's default actions (log,auditlog,pass) apply to
	conf += "SecRule ARGS \"@vprec 0\" \"id:1,phase:2," + join(vpC19Flags[f1].text, disr1[d1]) + "\"\n"
	conf += "SecRule ARGS \"@vprec 1\" \"id:2,phase:2," + join(vpC19Flags[f2].text, disr[d2]) + "\"\n"
	key := "c19:" + vpDigit(mode) + vpDigit(ctl) + pat + parts + vpDigit(f1) + vpDigit(f2) + vpDigit(d2) + vpDigit(d1)
	if detect {
		key += "D"
	}
	rec := &vpAuditRec{}
	waf := vp.Setup(key, func() any {
		waf := corazawaf.NewWAF()
		p := seclang.NewParser(waf)
		if err := p.FromString(conf); err != nil {
			panic("harness configuration rejected: " + err.Error() + "\n" + conf)
		}
		return waf
	}).(*corazawaf.WAF)
	waf.SetAuditLogWriter(rec)
	vpCbIDs = nil
	waf.SetErrorCallback(func(mr types.MatchedRule) { vpCbIDs = append(vpCbIDs, mr.Rule().ID()) })
	vpMatchBit[0] = vp.Bool("match1")
	vpMatchBit[1] = vp.Bool("match2")
	code := []int{200, 404, 500}[vp.Choice("status", 3)]

	tx := waf.NewTransaction()
	tx.AddRequestHeader("Host", "h")
	tx.AddGetRequestArgument("a", "1")
	vpEvalLog = vpEvalLog[:0]
	tx.ProcessRequestHeaders()
	_, _ = tx.ProcessRequestBody()
	first := !detect && vpMatchBit[0] && d1 > 0 // rule 1 interrupts: rule 2 is not evaluated
	fired2 := vpMatchBit[1] && !first
	interrupted := first || (!detect && fired2 && d2 > 0)
	wouldBe := detect && ((vpMatchBit[0] && d1 > 0) || (vpMatchBit[1] && d2 > 0))
	if !interrupted {
		tx.AddResponseHeader("Content-Type", "text/plain")
		tx.ProcessResponseHeaders(code, "HTTP/1.1")
		_, _ = tx.ProcessResponseBody()
	}
	tx.ProcessLogging()

	// ---- reference ------------------------------------------------------------------------
	eff := mode
	if ctl > 0 {
		eff = ctl - 1
	}
	status := vpItoa3(code)
	if interrupted || wouldBe {
		// the first disruptive match is the one an engine that is On performs
		if vpMatchBit[0] && d1 > 0 {
			status = "404"
		} else {
			status = []string{"", "403", "500"}[d2]
		}
	}
	relevant := false
	if pat == "^5" {
		relevant = status[0] == '5'
	} else {
		relevant = status == "403" || status == "404"
	}
	wantRecord := eff == 0 || (eff == 2 && relevant)
	if wantRecord {
		vp.Assert(len(rec.logs) == 1, "audit engine "+modes[eff]+", status "+status+": expected exactly one audit record")
	} else {
		vp.Assert(len(rec.logs) == 0, "audit engine "+modes[eff]+", status "+status+": expected no audit record")
	}
	// fired rules
	var wantAudit, wantLog []int
	if vpMatchBit[0] {
		if vpC19Flags[f1].audit {
			wantAudit = append(wantAudit, 1)
		}
		if vpC19Flags[f1].log {
			wantLog = append(wantLog, 1)
		}
	}
	if fired2 {
		if vpC19Flags[f2].audit {
			wantAudit = append(wantAudit, 2)
		}
		if vpC19Flags[f2].log {
			wantLog = append(wantLog, 2)
		}
	}
	vp.Assert(vpSameInts(vpCbIDs, wantLog), "error callback was not invoked exactly once per fired rule with logging enabled")
	if len(rec.logs) == 1 {
		al := rec.logs[0]
		vp.Assert(al.Transaction().ID() == tx.ID(), "audit record does not carry the transaction id")
		ps := al.Parts()
		vp.Assert(len(ps) >= 2 && ps[0] == 'A' && ps[len(ps)-1] == 'Z', "audit record lost the mandatory parts A (header with the transaction id) / Z")
		hasK := parts == "ABHKZ" || parts == "ABKZ"
		hasH := parts == "ABHKZ" || parts == "ABHZ"
		var got []int
		for _, m := range al.Messages() {
			if hasK {
				got = append(got, m.Data().ID())
			}
		}
		if hasK {
			vp.Assert(vpSameInts(got, wantAudit), "part K does not list exactly the fired audit-enabled rules")
		} else if hasH {
			vp.Assert(len(al.Messages()) == len(wantAudit), "part H without K: number of messages differs from the fired audit-enabled rules")
		} else {
			vp.Assert(len(al.Messages()) == 0, "messages logged although neither part H nor K is enabled")
		}
	}
	_ = tx.Close()
	vp.Reached("end")
}

func vpItoa3(n int) string {
	return string([]byte{byte('0' + n/100), byte('0' + n/10%10), byte('0' + n%10)})
}

// VpC19Parts: ctl:auditLogParts / ApplyAuditLogParts is set algebra on the canonical order with
// A and Z fixed.
func VpC19Parts() {
	all := "ABCDEFGHIJKZ"
	// base: A + symbolic subset of B..K + Z
	base := "A"
	var in [12]bool
	for i := 1; i < 11; i++ {
		if vp.Bool("base") {
			base += string(all[i])
			in[i] = true
		}
	}
	base += "Z"
	bp, err := types.ParseAuditLogParts(base)
	vp.Assert(err == nil, "ParseAuditLogParts rejected a canonical parts string")
	add := vp.Choice("add", 2) == 1
	x := 1 + vp.Choice("x", 10)
	y := 1 + vp.Choice("y", 10)
	mod := "-"
	if add {
		mod = "+"
	}
	mod += string(all[x]) + string(all[y])
	got, err := types.ApplyAuditLogParts(bp, mod)
	vp.Assert(err == nil, "ApplyAuditLogParts rejected a well-formed modification")
	want := "A"
	for i := 1; i < 11; i++ {
		keep := in[i]
		if i == x || i == y {
			keep = add
		}
		if keep {
			want += string(all[i])
		}
	}
	want += "Z"
	s := ""
	for _, p := range got {
		s += string(p)
	}
	vp.Assert(s == want, "ApplyAuditLogParts is not set algebra on the canonical order")
	_, err = types.ApplyAuditLogParts(bp, "+A")
	vp.Assert(err != nil, "part A accepted in a modification")
	_, err = types.ApplyAuditLogParts(bp, "-Z")
	vp.Assert(err != nil, "part Z accepted in a modification")
	vp.Reached("end")
}
