package coraza

import (
	"github.com/corazawaf/coraza/v3/internal/vp"
)

// VpC07ActionsText: SecAction with an arbitrary action string.
func VpC07ActionsText() {
	n := vp.Choice("len", vp.Param("N", 3)+1)
	s := vp.String("actions", n)
	vpC07NoLineBreak(s)
	vpC07Compile("SecAction \"id:1,phase:1,"+s+"\"", true)
	vp.Reached("end")
}

// VpC07VariablesText: SecRule with an arbitrary variables field.
func VpC07VariablesText() {
	n := 1 + vp.Choice("len", vp.Param("N", 3))
	s := vp.String("vars", n)
	vpC07NoLineBreak(s)
	for i := 0; i < len(s); i++ {
		vp.Assume(s[i] != ' ' && s[i] != '\t') // the field separator
	}
	pre := []string{"", "ARGS:", "ARGS|", "!ARGS:", "&", "TX:/", "XML:"}[vp.Choice("prefix", 7)]
	// a regex key /.../ made of symbolic bytes is compiled once per concrete pattern (the engine
	// splits on every pattern byte): at most one arbitrary byte between two slashes
	open := -2
	if pre == "TX:/" {
		open = -1
	}
	for i := 0; i < len(s); i++ {
		if s[i] == '/' {
			vp.Assume(open == -2 || i-open-1 <= 1)
			open = i
		}
	}
	vpC07Compile("SecRule "+pre+s+" \"@unconditionalMatch\" \"id:1,phase:1,pass\"", true)
	vp.Reached("end")
}

// VpC07OperatorName: SecRule whose operator field is [!]@<any bytes> with a fixed argument.
func VpC07OperatorName() {
	n := vp.Choice("len", vp.Param("N", 3)+1)
	s := vp.String("name", n)
	vpC07NoLineBreak(s)
	for i := 0; i < len(s); i++ {
		vp.Assume(s[i] != ' ' && s[i] != '"')
	}
	vp.Assume(!(len(s) >= 3 && (s[0] == 'r' || s[0] == 'R') && (s[1] == 'b' || s[1] == 'B') && (s[2] == 'l' || s[2] == 'L'))) // @rbl performs DNS lookups from goroutines: outside the engine
	pre := []string{"@", "!@", "!", ""}[vp.Choice("prefix", 4)]
	if pre == "!" || pre == "" {
		// no '@': the text is an @rx pattern; keep it a fixed pattern with a symbolic negation only
		vpC07Compile("SecRule ARGS \""+pre+"a.c\" \"id:1,phase:1,pass\"", true)
	} else {
		vpC07Compile("SecRule ARGS \""+pre+s+" 1\" \"id:1,phase:1,pass\"", true)
	}
	vp.Reached("end")
}

// VpC07OperatorArg: operators whose constructors parse their argument, with arbitrary argument
// bytes.
func VpC07OperatorArg() {
	n := vp.Choice("len", vp.Param("N", 3)+1)
	s := vp.String("arg", n)
	vpC07NoLineBreak(s)
	for i := 0; i < len(s); i++ {
		vp.Assume(s[i] != '"')
	}
	pre := []string{"@eq ", "@validateByteRange ", "@within %{", "@contains %{tx.", "!@streq ", "@ge %{tx.a}", "@beginsWith "}[vp.Choice("op", 7)]
	vpC07Compile("SecRule ARGS|TX:a \""+pre+s+"\" \"id:1,phase:1,pass,setvar:tx.a=1\"", true)
	vp.Reached("end")
}

// VpC07DirectiveLine: an arbitrary configuration line.
func VpC07DirectiveLine() {
	n := vp.Choice("len", vp.Param("N", 3)+1)
	s := vp.String("line", n)
	vpC07ASCII(s)
	pre := []string{"", "SecRule ", "SecAction ", "SecMarker ", "SecRuleRemoveById ", "SecRuleUpdateTargetById 1 ", "SecDefaultAction ", "Sec", "SecRuleEngine ", "SecAuditLogParts ", "SecRequestBodyLimit ", "SecRule ARGS \"@rx a\" \"id:1\"\nSecRuleUpdateActionById "}[vp.Choice("prefix", 12)]
	vpC07Compile(pre+s, false)
	vp.Reached("end")
}

// VpC07ActionArgs: every action that takes an argument, with N arbitrary 7-bit bytes as (the
// tail of) its argument, compiled and then driven through a full transaction.
func VpC07ActionArgs() {
	pres := []string{
		"ctl:", "ctl:ruleRemoveById=", "ctl:ruleRemoveTargetById=1;", "ctl:ruleRemoveTargetByTag=t;", "ctl:auditLogParts=",
		"ctl:requestBodyProcessor=", "ctl:ruleEngine=", "ctl:auditEngine=", "ctl:requestBodyAccess=", "ctl:forceRequestBodyVariable=",
		"ctl:ruleRemoveByTag=", "ctl:ruleRemoveByMsg=", "ctl:responseBodyLimit=", "ctl:debugLogLevel=", "ctl:hashEngine=",
		"expirevar:", "expirevar:tx.a=", "initcol:", "initcol:ip=", "setenv:", "setenv:a=", "redirect:", "status:", "severity:",
		"skip:", "skipAfter:", "phase:", "t:", "exec:", "logdata:", "logdata:%{", "msg:", "tag:", "rev:", "ver:", "maturity:", "accuracy:",
		"setvar:", "setvar:tx.", "setvar:!", "setvar:tx.a=%{", "capture,logdata:%{tx.", "multiMatch,t:", "chain,", "block,", "deny,status:",
		"drop,", "pass,", "allow:", "nolog,", "auditlog,", "id:",
	}
	pre := pres[vp.Choice("action", vp.Param("ACTIONS", len(pres)))]
	n := vp.Choice("len", vp.Param("N", 2)+1)
	s := vp.String("arg", n)
	vpC07NoLineBreak(s)
	for i := 0; i < len(s); i++ {
		vp.Assume(s[i] != '"')
	}
	vpC07Compile("SecRule ARGS \"@unconditionalMatch\" \"id:1,phase:1,pass,"+pre+s+"\"", true)
	vp.Reached("end")
}

// VpC07OperatorArgs2: the remaining built-in operators with N arbitrary bytes as (the tail of)
// their argument, compiled and then evaluated against a symbolic argument value.
func VpC07OperatorArgs2() {
	vpC07OperatorArgs([]string{
		"@pm ", "@pm a ", "@strmatch ", "@endsWith ",
		"@lt ", "@le %{", "@gt ", "@detectSQLi", "@detectXSS", "@validateUrlEncoding", "@validateUtf8Encoding", "@noMatch", "@unconditionalMatch",
		"@ipMatchFromDataset ", "@pmFromDataset ", "@geoLookup", "@contains ", "@within ", "@streq %{tx.", "@validateByteRange 1-",
		"@validateByteRange 1,", "@eq %{",
	})
}

// VpC07OperatorArgsRx: the operators whose argument becomes a regular expression (compiled once
// per concrete text: the engine splits on every symbolic pattern byte, and on every input byte
// where the operator asks the host regexp for submatches).
func VpC07OperatorArgsRx() {
	vpC07OperatorArgs([]string{
		"@restpath /", "@restpath /a/{", "@validateNid ", "@validateNid cl ", "@validateNid us ", "@rx (?", "@rx [", "@rx a{",
	})
}

func vpC07OperatorArgs(pres []string) {
	pre := pres[vp.Choice("op", len(pres))]
	n := vp.Choice("len", vp.Param("N", 2)+1)
	s := vp.String("arg", n)
	vpC07NoLineBreak(s)
	for i := 0; i < len(s); i++ {
		vp.Assume(s[i] != '"')
	}
	vpC07Compile("SecRule ARGS|TX:a \""+pre+s+"\" \"id:1,phase:1,pass,capture,setvar:tx.a=1\"", true)
	vp.Reached("end")
}
