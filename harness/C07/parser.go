package coraza

import (
	"github.com/corazawaf/coraza/v3/internal/vp"
)

// VpC07ActionsText: SecAction with an arbitrary action string.
func VpC07ActionsText() {
	n := vp.Choice("len", vp.Param("N", 3)+1)
	s := vp.String("actions", n)
	vpC07NoLineBreak(s)
	vpC07Compile("SecAction \"id:1,phase:1,"+s+"\"", true)
	vp.Reached("end")
}

// VpC07VariablesText: SecRule with an arbitrary variables field.
func VpC07VariablesText() {
	n := 1 + vp.Choice("len", vp.Param("N", 3))
	s := vp.String("vars", n)
	vpC07NoLineBreak(s)
	for i := 0; i < len(s); i++ {
		vp.Assume(s[i] != ' ' && s[i] != '\t') // the field separator
	}
	pre := []string{"", "ARGS:", "ARGS|", "!ARGS:", "&", "TX:/", "XML:"}[vp.Choice("prefix", 7)]
	// a regex key /.../ made of symbolic bytes is compiled once per concrete pattern (the engine
	// splits on every pattern byte): at most one arbitrary byte between two slashes
	open := -2
	if pre == "TX:/" {
		open = -1
	}
	for i := 0; i < len(s); i++ {
		if s[i] == '/' {
			vp.Assume(open == -2 || i-open-1 <= 1)
			open = i
		}
	}
	vpC07Compile("SecRule "+pre+s+" \"@unconditionalMatch\" \"id:1,phase:1,pass\"", true)
	vp.Reached("end")
}

// VpC07OperatorName: SecRule whose operator field is [!]@<any bytes> with a fixed argument.
func VpC07OperatorName() {
	n := vp.Choice("len", vp.Param("N", 3)+1)
	s := vp.String("name", n)
	vpC07NoLineBreak(s)
	for i := 0; i < len(s); i++ {
		vp.Assume(s[i] != ' ' && s[i] != '"')
	}
	vp.Assume(!(len(s) >= 3 && (s[0] == 'r' || s[0] == 'R') && (s[1] == 'b' || s[1] == 'B') && (s[2] == 'l' || s[2] == 'L'))) // @rbl performs DNS lookups from goroutines: outside the engine
	pre := []string{"@", "!@", "!", ""}[vp.Choice("prefix", 4)]
	if pre == "!" || pre == "" {
		// no '@': the text is an @rx pattern; keep it a fixed pattern with a symbolic negation only
		vpC07Compile("SecRule ARGS \""+pre+"a.c\" \"id:1,phase:1,pass\"", true)
	} else {
		vpC07Compile("SecRule ARGS \""+pre+s+" 1\" \"id:1,phase:1,pass\"", true)
	}
	vp.Reached("end")
}

// VpC07OperatorArg: operators whose constructors parse their argument, with arbitrary argument
// bytes.
func VpC07OperatorArg() {
	n := vp.Choice("len", vp.Param("N", 3)+1)
	s := vp.String("arg", n)
	vpC07NoLineBreak(s)
	for i := 0; i < len(s); i++ {
		vp.Assume(s[i] != '"')
	}
	pre := []string{"@eq ", "@validateByteRange ", "@within %{", "@contains %{tx.", "!@streq ", "@ge %{tx.a}", "@beginsWith "}[vp.Choice("op", 7)]
	vpC07Compile("SecRule ARGS|TX:a \""+pre+s+"\" \"id:1,phase:1,pass,setvar:tx.a=1\"", true)
	vp.Reached("end")
}

// VpC07DirectiveLine: an arbitrary configuration line.
func VpC07DirectiveLine() {
	n := vp.Choice("len", vp.Param("N", 3)+1)
	s := vp.String("line", n)
	vpC07ASCII(s)
	pre := []string{"", "SecRule ", "SecAction ", "SecMarker ", "SecRuleRemoveById ", "SecRuleUpdateTargetById 1 ", "SecDefaultAction ", "Sec", "SecRuleEngine ", "SecAuditLogParts ", "SecRequestBodyLimit ", "SecRule ARGS \"@rx a\" \"id:1\"\nSecRuleUpdateActionById "}[vp.Choice("prefix", 12)]
	vpC07Compile(pre+s, false)
	vp.Reached("end")
}
