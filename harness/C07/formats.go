package coraza

import (
	"github.com/corazawaf/coraza/v3/experimental/plugins/plugintypes"
	"github.com/corazawaf/coraza/v3/internal/auditlog"
	"github.com/corazawaf/coraza/v3/internal/corazawaf"
	"github.com/corazawaf/coraza/v3/internal/seclang"
	"github.com/corazawaf/coraza/v3/internal/vp"
)

// an audit writer that renders every record in every registered format
type vpFormatsWriter struct{ records, errors int }

func (w *vpFormatsWriter) Init(plugintypes.AuditLogConfig) error { return nil }
func (w *vpFormatsWriter) Write(al plugintypes.AuditLog) error {
	w.records++
	for _, name := range []string{"native", "json", "jsonlegacy", "ocsf"} {
		f, err := auditlog.GetFormatter(name)
		if err != nil {
			panic("formatter " + name + " is not registered")
		}
		if _, err := f.Format(al); err != nil {
			w.errors++
		}
	}
	return nil
}
func (w *vpFormatsWriter) Close() error { return nil }

// VpC07AuditFormats: every subset of the optional audit-log parts C E F H J K, a rule with
// log,auditlog / nolog,auditlog / log,noauditlog that passes or denies, a transaction that
// stops after the request phases or goes on to the response: ProcessLogging and the rendering
// of the record in each of the four registered formats return normally.
func VpC07AuditFormats() {
	parts := "AB"
	key := ""
	for _, c := range "CEFHJK" {
		if vp.Choice("part", 2) == 1 {
			parts += string(c)
			key += string(c)
		}
	}
	parts += "Z"
	flags := []string{"log,auditlog", "nolog,auditlog", "log,noauditlog"}[vp.Choice("flags", 3)]
	disr := []string{"pass", "deny,status:403"}[vp.Choice("disruptive", 2)]
	conf := "SecRuleEngine On\nSecRequestBodyAccess On\nSecResponseBodyAccess On\nSecResponseBodyMimeType text/plain\n" +
		"SecAuditEngine On\nSecAuditLogParts " + parts + "\n" +
		"SecRule ARGS \"@rx x\" \"id:1,phase:2," + disr + "," + flags + ",msg:'m %{MATCHED_VAR}',logdata:'d',tag:'t',severity:2\"\n"
	waf := vp.Setup("c07fmt:"+key+flags+disr, func() any {
		waf := corazawaf.NewWAF()
		p := seclang.NewParser(waf)
		if err := p.FromString(conf); err != nil {
			panic(err)
		}
		return waf
	}).(*corazawaf.WAF)
	w := &vpFormatsWriter{}
	waf.SetAuditLogWriter(w)
	waf.UploadDir = vp.TempDir()
	tx := waf.NewTransaction()
	tx.ProcessConnection("10.0.0.1", 1234, "10.0.0.2", 80)
	tx.ProcessURI("/p?a=x&b=y", "POST", "HTTP/1.1")
	tx.AddRequestHeader("Host", "h")
	hasJ := false
	for _, c := range parts {
		if c == 'J' {
			hasJ = true
		}
	}
	if hasJ && vp.Choice("upload", 2) == 1 {
		// part J lists uploaded files: a multipart request with two files of the same name
		tx.AddRequestHeader("Content-Type", "multipart/form-data; boundary=B")
		tx.ProcessRequestHeaders()
		part := "--B\r\nContent-Disposition: form-data; name=\"f\"; filename=\"x.txt\"\r\nContent-Type: text/plain\r\n\r\n"
		_, _, _ = tx.WriteRequestBody([]byte(part + "x" + vp.String("bodyv", 1) + "\r\n" + part + "yy\r\n--B\r\nContent-Disposition: form-data; name=\"a\"\r\n\r\nx\r\n--B--\r\n"))
	} else {
		tx.AddRequestHeader("Content-Type", "application/x-www-form-urlencoded")
		tx.ProcessRequestHeaders()
		_, _, _ = tx.WriteRequestBody([]byte("c=" + vp.String("bodyv", 1)))
	}
	_, _ = tx.ProcessRequestBody()
	if vp.Choice("response", 2) == 1 && !tx.IsInterrupted() {
		tx.AddResponseHeader("Content-Type", "text/plain")
		tx.ProcessResponseHeaders(200, "HTTP/1.1")
		_, _, _ = tx.WriteResponseBody([]byte("resp"))
		_, _ = tx.ProcessResponseBody()
	}
	tx.ProcessLogging()
	vp.Assert(w.records == 1, "audit engine On but the writer did not receive exactly one record")
	_ = tx.Close()
	vp.Reached("end")
}
