package coraza

import (
	"github.com/corazawaf/coraza/v3/internal/corazawaf"
	"github.com/corazawaf/coraza/v3/internal/seclang"
	"github.com/corazawaf/coraza/v3/internal/vp"
)

// vpC07Compile compiles text on a fresh WAF: it must return (error or nil), never panic.  When
// the text is accepted, one transaction is pushed through all five phases with a symbolic
// argument and header, and must return normally too.
func vpC07Compile(text string, run bool) {
	waf := corazawaf.NewWAF()
	p := seclang.NewParser(waf)
	err := p.FromString(text)
	vp.Observe("accepted", err == nil)
	if err != nil || !run {
		return
	}
	vpC07Drive(waf)
}

func vpC07Drive(waf *corazawaf.WAF) {
	tx := waf.NewTransaction()
	v := vp.String("argv", vp.Param("V", 1))
	tx.AddGetRequestArgument("a", v)
	tx.AddRequestHeader("Host", "h")
	tx.ProcessURI("/p?a=1", "GET", "HTTP/1.1")
	tx.ProcessRequestHeaders()
	if _, err := tx.ProcessRequestBody(); err != nil {
		vp.Observe("reqbody-error", true)
	}
	tx.AddResponseHeader("Content-Type", "text/plain")
	tx.ProcessResponseHeaders(200, "HTTP/1.1")
	if _, err := tx.ProcessResponseBody(); err != nil {
		vp.Observe("resbody-error", true)
	}
	tx.ProcessLogging()
	_ = tx.Close()
}

func vpC07NoLineBreak(s string) {
	for i := 0; i < len(s); i++ {
		vp.Assume(s[i] != '\n' && s[i] != '\r')
	}
	vpC07ASCII(s)
}

// vpC07ASCII restricts the text to 7-bit bytes when the tier asks for it (non-ASCII bytes send
// strings.ToLower through the Unicode tables, which multiplies paths without reaching more of
// coraza's own code).
func vpC07ASCII(s string) {
	if vp.Param("ASCII", 0) == 1 {
		for i := 0; i < len(s); i++ {
			vp.Assume(s[i] < 0x80)
		}
	}
}

