package coraza

import (
	"github.com/corazawaf/coraza/v3/internal/corazawaf"
	"github.com/corazawaf/coraza/v3/internal/seclang"
	"github.com/corazawaf/coraza/v3/internal/variables"
	"github.com/corazawaf/coraza/v3/internal/vp"
)

// VpC07Setvar: every documented spelling of setvar (assignment, arithmetic, deletion, flag
// without value, macro in key and value), with arbitrary trailing bytes, is either rejected at
// compile time or survives evaluation.
func VpC07Setvar() {
	shapes := []string{"tx.a", "!tx.a", "tx.a=", "tx.a=1", "tx.a=+1", "tx.a=-", "tx.%{tx.b}=1", "tx.a=%{tx.b}", "TX.a=+%{tx.b}", "tx.", "!tx.", "ip.a=1", "tx.a=%{", "!tx.%{tx.b}"}
	sh := shapes[vp.Choice("shape", len(shapes))]
	n := vp.Choice("len", vp.Param("N", 2)+1)
	s := vp.String("tail", n)
	vpC07NoLineBreak(s)
	for i := 0; i < len(s); i++ {
		vp.Assume(s[i] != '"' && s[i] != ',' && s[i] != '\'')
	}
	vpC07Compile("SecAction \"id:1,phase:1,pass,setvar:tx.b=2,setvar:"+sh+s+"\"", true)
	vp.Reached("end")
}

// VpC07MacroVariables: a macro naming any variable (with and without key) in msg, logdata and
// setvar is either rejected at compile time or expands at request time without panicking.
func VpC07MacroVariables() {
	v := variables.RuleVariable(vp.Choice("variable", vp.Param("NVARS", 110)))
	name := v.Name()
	vp.Assume(name != "UNKNOWN" && name != "")
	form := vp.Choice("form", 3)
	var m string
	switch form {
	case 0:
		m = "%{" + name + "}"
	case 1:
		m = "%{" + name + ".k}"
	default:
		m = "%{" + name + "." + vp.String("key", 1) + "}"
	}
	vpC07Compile("SecAction \"id:1,phase:2,pass,log,msg:'"+m+"',logdata:'x"+m+"',setvar:tx.x="+m+"\"", true)
	vp.Reached("end")
}

// VpC07RemoveBy: rule-group editing directives over rule sets in which optional fields (msg,
// tag, chain) are present or absent.
func VpC07RemoveBy() {
	rules := ""
	for i := 0; i < 3; i++ {
		opt := ""
		if vp.Choice("msg", 2) == 1 {
			opt += ",msg:'m" + string(rune('0'+i)) + "'"
		}
		if vp.Choice("tag", 2) == 1 {
			opt += ",tag:'t'"
		}
		rules += "SecRule ARGS \"@streq x\" \"id:" + string(rune('1'+i)) + ",phase:1,pass" + opt + "\"\n"
	}
	rules += "SecAction \"id:9,phase:1,pass\"\nSecMarker M\n"
	dir := []string{
		"SecRuleRemoveByMsg \"m0\"", "SecRuleRemoveByTag \"t\"", "SecRuleRemoveById 1 2-3", "SecRuleRemoveById 9",
		"SecRuleUpdateTargetByMsg \"m1\" \"!ARGS:a\"", "SecRuleUpdateTargetByTag \"t\" \"!ARGS:a\"", "SecRuleUpdateTargetById 2 \"!ARGS:a\"",
		"SecRuleUpdateActionById 3 \"deny\"",
		"SecAction \"id:20,phase:1,pass,ctl:ruleRemoveByMsg=m0\"", "SecAction \"id:20,phase:1,pass,ctl:ruleRemoveTargetByMsg=m1;ARGS:a\"",
		"SecAction \"id:20,phase:1,pass,ctl:ruleRemoveByTag=t\"", "SecAction \"id:20,phase:1,pass,ctl:ruleRemoveTargetByTag=t;ARGS:a\"",
	}[vp.Choice("directive", 12)]
	before := vp.Choice("ctlfirst", 2) == 1
	if before {
		vpC07Compile(dir+"\n"+rules, true)
	} else {
		vpC07Compile(rules+dir+"\n", true)
	}
	vp.Reached("end")
}

// VpC07BodyLimits: ctl:requestBodyLimit / responseBodyLimit accept any integer; body writes
// after the limit changed (including limits below the bytes already buffered, zero and
// negative values) must return normally.
func VpC07BodyLimits() {
	lim := []string{"0", "1", "2", "3", "-1", "9", "-9223372036854775808", "9223372036854775807"}[vp.Choice("limit", 8)]
	action := []string{"ProcessPartial", "Reject"}[vp.Choice("action", 2)]
	waf := vp.Setup("bodylimits:"+lim+action, func() any {
		waf := corazawaf.NewWAF()
		p := seclang.NewParser(waf)
		if err := p.FromString(`
SecRuleEngine On
SecRequestBodyAccess On
SecResponseBodyAccess On
SecResponseBodyMimeType text/plain
SecRequestBodyLimit 8
SecResponseBodyLimit 8
SecRequestBodyLimitAction ` + action + `
SecResponseBodyLimitAction ` + action + `
SecAction "id:1,phase:1,pass,ctl:requestBodyLimit=` + lim + `,ctl:responseBodyLimit=` + lim + `"
`); err != nil {
			panic(err)
		}
		return waf
	}).(*corazawaf.WAF)
	tx := waf.NewTransaction()
	tx.AddRequestHeader("Host", "h")
	// the body content is irrelevant to the size arithmetic: concrete bytes, symbolic lengths
	pre := []byte("ab")[:vp.Choice("prelen", 3)]
	post := []byte("cde")[:vp.Choice("postlen", 4)]
	order := vp.Choice("order", 2)
	if order == 0 {
		// bytes buffered before the limit is lowered by the phase-1 ctl
		_, _, _ = tx.WriteRequestBody(pre)
	}
	tx.ProcessRequestHeaders()
	if order == 1 {
		_, _, _ = tx.WriteRequestBody(pre)
	}
	_, _, _ = tx.WriteRequestBody(post)
	_, _ = tx.ProcessRequestBody()
	tx.AddResponseHeader("Content-Type", "text/plain")
	tx.ProcessResponseHeaders(200, "HTTP/1.1")
	_, _, _ = tx.WriteResponseBody(pre)
	_, _, _ = tx.WriteResponseBody(post)
	_, _ = tx.ProcessResponseBody()
	tx.ProcessLogging()
	_ = tx.Close()
	vp.Reached("end")
}
