package coraza

import (
	"github.com/corazawaf/coraza/v3/internal/vp"
)

// vpC03JSONString renders s as a JSON string literal with the harness's own encoder: every
// byte raw (when legal inside a JSON string) or as \u00XX; quote and backslash also as \" \\.
func vpC03JSONString(s string) string {
	out := "\""
	for i := 0; i < len(s); i++ {
		b := s[i]
		switch vp.Choice("jenc", 3) {
		case 0:
			vp.Assume(b >= 0x20 && b != '"' && b != '\\' && b < 0x80)
			out += string([]byte{b})
		case 1:
			vp.Assume(b < 0x80)
			out += "\\u00" + string([]byte{"0123456789abcdef"[b>>4], "0123456789ABCDEF"[b&15]})
		default:
			vp.Assume(b == '"' || b == '\\' || b == '/')
			out += "\\" + string([]byte{b})
		}
	}
	return out + "\""
}

// VpC03JSON: a JSON object body with 1..P string members (names from a pool that includes a
// repeated name, a dotted name and a name equal to an array index; values of arbitrary 7-bit
// bytes through an independent JSON string encoder), optionally nested one level or wrapped in
// an array: ARGS_POST holds exactly the flattened members (json.<path>), byte-exact, decoded
// once - or something says the body could not be represented.
func VpC03JSON() { vpC03JSON() }

// VpC03JSONDeep: the same check with fewer members and longer values (thorough tier only).
func VpC03JSONDeep() { vpC03JSON() }

func vpC03JSON() {
	names := []string{"a", "b", "a.b", "0"}
	p := 1 + vp.Choice("nmembers", vp.Param("P", 2))
	shape := vp.Choice("shape", 3) // 0 flat object, 1 nested under "o", 2 inside an array
	body := "{"
	var want, used []string
	dup := ""
	prefix := "json."
	switch shape {
	case 1:
		prefix = "json.o."
	case 2:
		prefix = "json.0."
	}
	for i := 0; i < p; i++ {
		k := names[vp.Choice("name", vp.Param("NAMES", len(names)))]
		for _, prev := range used {
			if prev == k {
				dup = k
			}
		}
		used = append(used, k)
		v := vp.String("value", vp.Choice("valuelen", vp.Param("VLEN", 1)+1))
		if i > 0 {
			body += ","
		}
		body += "\"" + k + "\":" + vpC03JSONString(v)
		want = append(want, prefix+k+"\x00="+v)
	}
	body += "}"
	switch shape {
	case 1:
		body = "{\"o\":" + body + "}"
	case 2:
		body = "[" + body + "]"
		want = append(want, "json\x00=1") // documented: an array also exposes its length under its own path
	}
	waf := vpBuild("c03json", "SecRuleEngine On\nSecRequestBodyAccess On\n"+
		"SecRule REQUEST_HEADERS:Content-Type \"@rx ^application/json\" \"id:1,phase:1,pass,nolog,ctl:requestBodyProcessor=JSON\"\n")
	tx := waf.NewTransaction()
	tx.AddRequestHeader("Host", "h")
	tx.AddRequestHeader("Content-Type", "application/json")
	tx.ProcessRequestHeaders()
	_, _, err := tx.WriteRequestBody([]byte(body))
	vp.Assert(err == nil, "WriteRequestBody failed")
	_, err = tx.ProcessRequestBody()
	vp.Assert(err == nil, "ProcessRequestBody failed")
	said := tx.Variables().RequestBodyError().Get() == "1" || tx.Interruption() != nil
	got := vpC03Dump(tx.Variables().ArgsPost().FindAll())
	vp.Observe("body", body)
	msg := "ARGS_POST differs from the members of the JSON body (dropped, merged or renamed) and nothing reports it"
	if dup != "" {
		// identified by shape and name so that each failing family is listed on its own
		msg = "JSON object (" + []string{"flat", "nested", "inside an array"}[shape] + ") with the member name \"" + dup + "\" twice: ARGS_POST keeps one of the two values and nothing reports it"
	}
	vp.Assert(said || vpMultisetEq(got, want), msg)
	_ = tx.Close()
	vp.Reached("end")
}
