package coraza

import (
	"github.com/corazawaf/coraza/v3/types"
)

func vpC03Dump(ms []types.MatchData) []string {
	var out []string
	for _, m := range ms {
		out = append(out, m.Key()+"\x00="+m.Value())
	}
	return out
}

