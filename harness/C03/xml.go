package coraza

import (
	"strings"

	"github.com/corazawaf/coraza/v3/internal/vp"
)

// vpC03XMLText renders s for an XML text node or a double-quoted attribute value with the
// harness's own encoder: every byte raw (when legal there) or as a character reference.
func vpC03XMLText(s string, attr bool) string {
	out := ""
	for i := 0; i < len(s); i++ {
		b := s[i]
		vp.Assume(b < 0x80)
		switch vp.Choice("xenc", 3) {
		case 0:
			vp.Assume(b != '<' && b != '&' && b != '"' && b != '>')
			// XML normalises a raw CR to LF, and raw TAB/LF inside an attribute value to a space:
			// only a character reference carries these bytes
			vp.Assume(b != '\r' && (!attr || (b != '\n' && b != '\t')))
			out += string([]byte{b})
		case 1:
			out += "&#x" + string([]byte{"0123456789abcdef"[b>>4], "0123456789ABCDEF"[b&15]}) + ";"
		default:
			switch b {
			case '<':
				out += "&lt;"
			case '&':
				out += "&amp;"
			case '"':
				out += "&quot;"
			case '>':
				out += "&gt;"
			default:
				vp.Assume(false)
			}
		}
	}
	return out
}

// VpC03XML: an XML body <r k="ATTR"><e>TEXT</e>...</r> with 1..P elements, attribute value and
// text of arbitrary 7-bit bytes through an independent XML encoder (raw, &#xHH;, named entity),
// through the real encoding/xml based processor: XML://@* holds exactly the attribute values
// and XML:/* exactly the text nodes (white space trimmed, empty ones omitted, as documented) -
// or REQBODY_ERROR / an interruption says the body could not be represented.
func VpC03XML() {
	p := 1 + vp.Choice("nelems", vp.Param("P", 2))
	var wantAttrs, wantText []string
	body := "<r>"
	for i := 0; i < p; i++ {
		// one of the two is symbolic, the other a fixed text with white space around it
		a, t := "A b", " T\tt "
		if vp.Choice("symbolic", 2) == 0 {
			a = vp.String("attr", vp.Choice("attrlen", vp.Param("VLEN", 1)+1))
		} else {
			t = vp.String("text", vp.Choice("textlen", vp.Param("VLEN", 1)+1))
		}
		body += "<e k=\"" + vpC03XMLText(a, true) + "\">" + vpC03XMLText(t, false) + "</e>"
		wantAttrs = append(wantAttrs, a)
		if tt := strings.TrimSpace(t); tt != "" {
			wantText = append(wantText, tt)
		}
	}
	body += "</r>"
	waf := vpBuild("c03xml", "SecRuleEngine On\nSecRequestBodyAccess On\n"+
		"SecRule REQUEST_HEADERS:Content-Type \"@rx ^text/xml\" \"id:1,phase:1,pass,nolog,ctl:requestBodyProcessor=XML\"\n")
	tx := waf.NewTransaction()
	tx.AddRequestHeader("Host", "h")
	tx.AddRequestHeader("Content-Type", "text/xml")
	tx.ProcessRequestHeaders()
	_, _, err := tx.WriteRequestBody([]byte(body))
	vp.Assert(err == nil, "WriteRequestBody failed")
	_, err = tx.ProcessRequestBody()
	vp.Assert(err == nil, "ProcessRequestBody failed")
	vars := tx.Variables()
	said := vars.RequestBodyError().Get() == "1" || tx.Interruption() != nil
	vp.Observe("body", body)
	if !said {
		vp.Assert(vpSameStrings(vars.RequestXML().Get("//@*"), wantAttrs), "XML://@* differs from the attribute values of the body and nothing reports it")
		vp.Assert(vpSameStrings(vars.RequestXML().Get("/*"), wantText), "XML:/* differs from the text nodes of the body and nothing reports it")
	}
	_ = tx.Close()
	vp.Reached("end")
}

func vpSameStrings(a, b []string) bool {
	if len(a) != len(b) {
		return false
	}
	ok := true
	for i := range a {
		if a[i] != b[i] {
			ok = false
		}
	}
	return ok
}
