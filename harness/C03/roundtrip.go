package coraza

import (
	"github.com/corazawaf/coraza/v3/internal/corazawaf"
	"github.com/corazawaf/coraza/v3/internal/vp"
)

// vpC03Encode is the harness's own form encoder: every byte is written raw (when that is legal
// in a query string / urlencoded body) or as %XX with upper- or lower-case hex digits; the
// choice is explored for every byte.
func vpC03Encode(s string) string {
	out := ""
	for i := 0; i < len(s); i++ {
		b := s[i]
		switch vp.Choice("enc", 3) {
		case 0:
			vp.Assume(b != '&' && b != '=' && b != '%' && b != '+' && b != '#' && b != ' ')
			out += string([]byte{b})
		case 1:
			out += "%" + string([]byte{"0123456789ABCDEF"[b>>4], "0123456789ABCDEF"[b&15]})
		default:
			out += "%" + string([]byte{"0123456789abcdef"[b>>4], "0123456789abcdef"[b&15]})
		}
	}
	return out
}

type vpKV struct{ k, v string }

func vpC03Pairs() ([]vpKV, string) {
	p := 1 + vp.Choice("npairs", vp.Param("P", 2))
	pairs := make([]vpKV, p)
	qs := ""
	for i := 0; i < p; i++ {
		k := vp.String("name", vp.Choice("namelen", vp.Param("KLEN", 1)+1))
		for j := 0; j < len(k); j++ {
			vp.Assume(k[j] < 0x80) // names are lower-cased with strings.ToLower: non-ASCII names are outside the claim
		}
		v := vp.String("value", vp.Choice("valuelen", vp.Param("VLEN", 1)+1))
		pairs[i] = vpKV{k, v}
		if i > 0 {
			qs += "&"
		}
		// an empty name with an empty value has no rendering that a form parser can see
		vp.Assume(len(k) > 0 || len(v) > 0)
		qs += vpC03Encode(k) + "=" + vpC03Encode(v)
	}
	return pairs, qs
}

func vpC03Want(pairs []vpKV) ([]string, []string) {
	var kv, names []string
	for _, p := range pairs {
		kv = append(kv, p.k+"\x00="+p.v)
		names = append(names, p.k+"\x00="+p.k)
	}
	return kv, names
}

func vpC03WAF(limit int) *corazawaf.WAF {
	conf := "SecRuleEngine On\nSecRequestBodyAccess On\n"
	if limit > 0 {
		conf += "SecArgumentsLimit " + vpD(limit) + "\n"
	}
	return vpBuild("c03:"+vpD(limit), conf)
}

// VpC03Query: pairs -> independent percent-encoder -> query string -> ExtractGetArguments:
// ARGS_GET, ARGS and ARGS_NAMES hold exactly the pairs, byte-exact, decoded once.
func VpC03Query() { vpC03Query() }

// VpC03QueryDeep / VpC03BodyDeep: the same checks with a single pair and longer names and values
// (thorough tier only).
func VpC03QueryDeep() { vpC03Query() }
func VpC03BodyDeep()  { vpC03Body() }

func vpC03Query() {
	pairs, qs := vpC03Pairs()
	waf := vpC03WAF(0)
	tx := waf.NewTransaction()
	tx.ExtractGetArguments(qs)
	wantKV, wantNames := vpC03Want(pairs)
	vp.Assert(vpMultisetEq(vpC03Dump(tx.Variables().ArgsGet().FindAll()), wantKV), "ARGS_GET differs from the query-string pairs")
	vp.Assert(vpMultisetEq(vpC03Dump(tx.Variables().Args().FindAll()), wantKV), "ARGS differs from the query-string pairs")
	vp.Assert(vpMultisetEq(vpC03Dump(tx.Variables().ArgsNames().FindAll()), wantNames), "ARGS_NAMES differs from the query-string names")
	vp.Observe("qs", qs)
	_ = tx.Close()
	vp.Reached("end")
}

// VpC03Body: the same pairs as a urlencoded body: ARGS_POST, ARGS hold exactly the pairs and
// REQUEST_BODY the raw bytes.
func VpC03Body() { vpC03Body() }

func vpC03Body() {
	pairs, body := vpC03Pairs()
	waf := vpC03WAF(0)
	tx := waf.NewTransaction()
	tx.AddRequestHeader("Host", "h")
	tx.AddRequestHeader("Content-Type", "application/x-www-form-urlencoded")
	tx.ProcessRequestHeaders()
	_, _, err := tx.WriteRequestBody([]byte(body))
	vp.Assert(err == nil, "WriteRequestBody failed")
	_, err = tx.ProcessRequestBody()
	vp.Assert(err == nil, "ProcessRequestBody failed")
	wantKV, _ := vpC03Want(pairs)
	vp.Assert(tx.Variables().RequestBodyError().Get() != "1", "a well-formed urlencoded body was reported as unparsable")
	vp.Assert(vpMultisetEq(vpC03Dump(tx.Variables().ArgsPost().FindAll()), wantKV), "ARGS_POST differs from the body pairs (dropped, merged or renamed)")
	vp.Assert(vpMultisetEq(vpC03Dump(tx.Variables().Args().FindAll()), wantKV), "ARGS differs from the body pairs")
	vp.Assert(tx.Variables().RequestBody().Get() == body, "REQUEST_BODY differs from the bytes supplied")
	_ = tx.Close()
	vp.Reached("end")
}

// VpC03Limit: with SecArgumentsLimit L, either every argument is visible or something says so
// (an interruption, or an error variable).
func VpC03Limit() {
	limit := 1 + vp.Choice("limit", 2)
	waf := vpC03WAF(limit)
	tx := waf.NewTransaction()
	n := 1 + vp.Choice("nargs", 3)
	viaBody := vp.Choice("body", 2) == 1
	names := []string{"a", "b", "c"}
	qs := ""
	for i := 0; i < n; i++ {
		if i > 0 {
			qs += "&"
		}
		qs += names[i] + "=" + vpD(i)
	}
	tx.AddRequestHeader("Host", "h")
	if viaBody {
		tx.AddRequestHeader("Content-Type", "application/x-www-form-urlencoded")
		tx.ProcessRequestHeaders()
		_, _, _ = tx.WriteRequestBody([]byte(qs))
		_, _ = tx.ProcessRequestBody()
	} else {
		tx.ExtractGetArguments(qs)
		tx.ProcessRequestHeaders()
		_, _ = tx.ProcessRequestBody()
	}
	visible := len(tx.Variables().Args().FindAll())
	flagged := tx.IsInterrupted() || tx.Variables().RequestBodyError().Get() == "1" || tx.Variables().InboundDataError().Get() == "1"
	vp.Assert(visible == n || flagged, "arguments over SecArgumentsLimit were dropped and nothing reports it")
	vp.Assert(visible <= limit || viaBody || true, "")
	_ = tx.Close()
	vp.Reached("end")
}

// VpC03Headers: header fields with mixed-case names and arbitrary value bytes, and cookies
// rendered as "k=v; k=v": REQUEST_HEADERS(_NAMES) and REQUEST_COOKIES hold exactly what was
// supplied (cookies are not URL-decoded).
func VpC03Headers() {
	waf := vpC03WAF(0)
	tx := waf.NewTransaction()
	names := []string{"X-a", "x-A", "X-b"}
	n := 1 + vp.Choice("nheaders", 3)
	var wantH, wantN []string
	for i := 0; i < n; i++ {
		name := names[vp.Choice("name", len(names))]
		v := vp.String("hvalue", vp.Choice("hlen", vp.Param("VLEN", 1)+1))
		tx.AddRequestHeader(name, v)
		wantH = append(wantH, name+"\x00="+v)
		wantN = append(wantN, name+"\x00="+name)
	}
	// cookies
	nc := 1 + vp.Choice("ncookies", 2)
	hdr := ""
	var wantC []string
	for i := 0; i < nc; i++ {
		ck := []string{"sid", "SID", "t"}[vp.Choice("cname", 3)]
		cv := vp.String("cvalue", vp.Choice("clen", vp.Param("VLEN", 1)+1))
		for j := 0; j < len(cv); j++ {
			// bytes a cookie-pair can carry: no separator, no surrounding white space
			vp.Assume(cv[j] > 0x20 && cv[j] != ';' && cv[j] != 0x7f)
		}
		if i > 0 {
			hdr += "; "
		}
		hdr += ck + "=" + cv
		wantC = append(wantC, ck+"\x00="+cv)
	}
	tx.AddRequestHeader("Cookie", hdr)
	wantH = append(wantH, "Cookie\x00="+hdr)
	wantN = append(wantN, "Cookie\x00=Cookie")
	tx.ProcessRequestHeaders()
	vp.Assert(vpMultisetEq(vpC03Dump(tx.Variables().RequestHeaders().FindAll()), wantH), "REQUEST_HEADERS differ from the header fields supplied")
	vp.Assert(vpMultisetEq(vpC03Dump(tx.Variables().RequestHeadersNames().FindAll()), wantN), "REQUEST_HEADERS_NAMES differ from the header names supplied")
	vp.Assert(vpMultisetEq(vpC03Dump(tx.Variables().RequestCookies().FindAll()), wantC), "REQUEST_COOKIES differ from the cookie pairs supplied")
	_ = tx.Close()
	vp.Reached("end")
}
