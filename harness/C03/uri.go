package coraza

import (
	"github.com/corazawaf/coraza/v3/internal/vp"
)

func vpHexVal(c byte) int {
	switch {
	case c >= '0' && c <= '9':
		return int(c - '0')
	case c >= 'a' && c <= 'f':
		return int(c-'a') + 10
	case c >= 'A' && c <= 'F':
		return int(c-'A') + 10
	}
	return -1
}

// VpC03URI: a request target "/" + N arbitrary bytes (+ "/" + a fixed segment) (+ "?" + query)
// (+ "#" + fragment) given to ProcessURI.  REQUEST_URI_RAW and REQUEST_LINE are the bytes
// supplied.  Unless URLENCODED_ERROR reports that the target could not be parsed:
// REQUEST_URI is the target without its fragment, byte-exact; QUERY_STRING is the text between
// the first '?' and the fragment; REQUEST_FILENAME is the path with every %XX decoded exactly
// once; REQUEST_BASENAME is its last segment; the query arguments are extracted.
func VpC03URI() {
	seg := vp.String("seg", vp.Choice("seglen", vp.Param("N", 2)+1))
	for i := 0; i < len(seg); i++ {
		// '?' and '#' would move the query / fragment boundary: they are placed explicitly below
		vp.Assume(seg[i] != '?' && seg[i] != '#')
	}
	path := "/" + seg
	if vp.Choice("tail", 2) == 1 {
		path += "/t.php"
	}
	uri := path
	query, hasQuery := "", false
	switch vp.Choice("query", 3) {
	case 1:
		query, hasQuery = "k=v&k=%41", true
	case 2:
		query, hasQuery = "", true
	}
	if hasQuery {
		uri += "?" + query
	}
	noFrag := uri
	if vp.Choice("frag", 2) == 1 {
		uri += "#f?x"
	}
	waf := vpBuild("c03uri", "SecRuleEngine On\n")
	tx := waf.NewTransaction()
	tx.ProcessURI(uri, "GET", "HTTP/1.1")
	v := tx.Variables()
	vp.Observe("uri", uri)
	vp.Assert(v.RequestURIRaw().Get() == uri, "REQUEST_URI_RAW differs from the request target supplied")
	vp.Assert(v.RequestLine().Get() == "GET "+uri+" HTTP/1.1", "REQUEST_LINE differs from the request line supplied")
	said := v.UrlencodedError().Get() != "0" && v.UrlencodedError().Get() != ""
	if !said {
		vp.Assert(v.RequestURI().Get() == noFrag, "REQUEST_URI is not the request target (without fragment) byte for byte, and nothing reports it")
		vp.Assert(v.QueryString().Get() == query, "QUERY_STRING differs from the query part of the request target")
		// reference: decode every %XX of the path exactly once
		dec := ""
		for i := 0; i < len(path); i++ {
			if path[i] == '%' && i+2 < len(path) && vpHexVal(path[i+1]) >= 0 && vpHexVal(path[i+2]) >= 0 {
				dec += string([]byte{byte(vpHexVal(path[i+1])<<4 | vpHexVal(path[i+2]))})
				i += 2
			} else {
				dec += string([]byte{path[i]})
			}
		}
		vp.Assert(v.RequestFilename().Get() == dec, "REQUEST_FILENAME is not the path decoded exactly once")
		base := dec
		for i := len(dec) - 1; i >= 0; i-- {
			if dec[i] == '/' || dec[i] == '\\' {
				if i+1 < len(dec) {
					base = dec[i+1:]
				}
				break
			}
		}
		vp.Assert(v.RequestBasename().Get() == base, "REQUEST_BASENAME is not the last segment of REQUEST_FILENAME")
		if query != "" {
			vp.Assert(vpMultisetEq(vpC03Dump(v.ArgsGet().FindAll()), []string{"k\x00=v", "k\x00=A"}), "ARGS_GET differs from the query arguments of the request target")
		} else {
			vp.Assert(len(v.ArgsGet().FindAll()) == 0, "ARGS_GET is not empty for a target without query arguments")
		}
	}
	_ = tx.Close()
	vp.Reached("end")
}
