package coraza

import (
	"github.com/corazawaf/coraza/v3/internal/vp"
)

// VpC03Multipart: a multipart/form-data body with 1..P parts, each a plain field or an uploaded
// file, names from a pool that repeats, content of arbitrary bytes (anything but the boundary
// fits: the content is at most VLEN bytes), written by the harness's own multipart writer,
// through the real mime/multipart based processor: ARGS_POST holds exactly the fields, FILES /
// FILES_NAMES / FILES_SIZES / FILES_COMBINED_SIZE exactly the uploads - or MULTIPART_STRICT_ERROR,
// REQBODY_ERROR or an interruption says the body could not be represented.
func VpC03Multipart() {
	names := []string{"a", "b", "A"}
	fnames := []string{"x.txt", "y.txt"}
	p := 1 + vp.Choice("nparts", vp.Param("P", 2))
	body := ""
	var wantPost, wantFiles, wantFilesNames, wantSizes []string
	malformed := false
	total := 0
	for i := 0; i < p; i++ {
		k := names[vp.Choice("name", len(names))]
		v := vp.String("content", vp.Choice("contentlen", vp.Param("VLEN", 1)+1))
		body += "--B\r\nContent-Disposition: form-data; name=\"" + k + "\""
		kind := vp.Choice("isfile", vp.Param("KINDS", 2))
		if kind == 2 {
			// a Content-Disposition that cannot be parsed (a parameter given twice): the part cannot
			// be attributed, so something has to say so
			body += "; filename=\"shell.php\"; filename=\"ok.txt\""
			malformed = true
		}
		if kind == 1 {
			fn := fnames[vp.Choice("filename", len(fnames))]
			body += "; filename=\"" + fn + "\"\r\nContent-Type: application/octet-stream"
			wantFiles = append(wantFiles, "\x00="+fn)
			wantFilesNames = append(wantFilesNames, "\x00="+k)
			wantSizes = append(wantSizes, fn+"\x00="+vpItoa(len(v)))
		} else if kind == 0 {
			wantPost = append(wantPost, k+"\x00="+v)
		}
		total += len(v)
		body += "\r\n\r\n" + v + "\r\n"
	}
	body += "--B--\r\n"
	waf := vpBuild("c03mp", "SecRuleEngine On\nSecRequestBodyAccess On\n")
	waf.UploadDir = vp.TempDir()
	tx := waf.NewTransaction()
	tx.AddRequestHeader("Host", "h")
	tx.AddRequestHeader("Content-Type", "multipart/form-data; boundary=B")
	tx.ProcessRequestHeaders()
	_, _, err := tx.WriteRequestBody([]byte(body))
	vp.Assert(err == nil, "WriteRequestBody failed")
	_, err = tx.ProcessRequestBody()
	vp.Assert(err == nil, "ProcessRequestBody failed")
	vars := tx.Variables()
	said := vars.RequestBodyError().Get() == "1" || vars.MultipartStrictError().Get() == "1" || tx.Interruption() != nil
	vp.Observe("body", body)
	if malformed {
		vp.Assert(said, "a part whose Content-Disposition cannot be parsed (duplicate filename parameter) was accepted silently: no MULTIPART_STRICT_ERROR, REQBODY_ERROR or interruption")
	}
	if !said {
		vp.Assert(vpMultisetEq(vpC03Dump(vars.ArgsPost().FindAll()), wantPost), "ARGS_POST differs from the fields of the multipart body (dropped, merged or renamed) and nothing reports it")
		vp.Assert(vpMultisetEq(vpC03Dump(vars.Files().FindAll()), wantFiles), "FILES differs from the uploaded file names and nothing reports it")
		vp.Assert(vpMultisetEq(vpC03Dump(vars.FilesNames().FindAll()), wantFilesNames), "FILES_NAMES differs from the upload field names and nothing reports it")
		if len(wantFiles) > 0 || len(wantPost) > 0 {
			vp.Assert(vars.FilesCombinedSize().Get() == vpItoa(total), "FILES_COMBINED_SIZE differs from the total content size")
		}
		msg := "FILES_SIZES differs from the sizes of the uploaded files and nothing reports it"
		if vpHasDup(wantFiles) {
			msg = "two uploads with the same file name: FILES_SIZES keeps one size and nothing reports it"
		}
		vp.Assert(vpMultisetEq(vpC03Dump(vars.FilesSizes().FindAll()), wantSizes), msg)
	}
	_ = tx.Close()
	vp.Reached("end")
}

func vpHasDup(l []string) bool {
	for i := range l {
		for j := 0; j < i; j++ {
			if l[i] == l[j] {
				return true
			}
		}
	}
	return false
}

func vpItoa(n int) string {
	if n == 0 {
		return "0"
	}
	s := ""
	for n > 0 {
		s = string(rune('0'+n%10)) + s
		n /= 10
	}
	return s
}
