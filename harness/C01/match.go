package coraza

import (
	"github.com/corazawaf/coraza/v3/internal/vp"
)

// VpC01Match: one rule (target x negation x transformation x multiMatch off) over a request of
// 1..P name/value pairs placed in the query string, the body arguments, the headers or the
// cookies, with names drawn from {k, K, j, kk} and symbolic one-byte values: the rule fires iff
// some selected value satisfies the operator, and its match data are exactly the selected
// (variable, key, transformed value) triples that satisfy it.
func VpC01Match() {
	ti := vp.Choice("target", vp.Param("TARGETS", len(vpC01Targets)))
	t := vpC01Targets[ti]
	neg := vp.Choice("negate", 2) == 1
	lower := vp.Choice("lowercase", 2) == 1
	op := "@streq x"
	if neg {
		op = "!@streq x"
	}
	acts := "id:1,phase:2,pass"
	if lower {
		acts += ",t:lowercase"
	}
	waf := vpBuild("c01:"+vpD(ti/10)+vpD(ti%10)+vpD(vp.Choice("zero", 1))+op+acts, "SecRuleEngine On\nSecRule "+t.text+" \""+op+"\" \""+acts+"\"\n")
	tx := waf.NewTransaction()
	namePool := []string{"k", "K", "j", "kk"}
	np := 1 + vp.Choice("npairs", vp.Param("P", 2))
	pairs := make([]vpPair, np)
	for i := 0; i < np; i++ {
		p := vpPair{where: vp.Choice("where", vp.Param("WHERE", 4)), name: namePool[vp.Choice("name", vp.Param("NAMES", len(namePool)))]}
		c := vp.Byte("value")
		vp.Assume(c == 'x' || c == 'X' || c == 'y')
		p.value = string([]byte{c})
		pairs[i] = p
		switch p.where {
		case 0:
			tx.AddGetRequestArgument(p.name, p.value)
		case 1:
			tx.AddPostRequestArgument(p.name, p.value)
		case 2:
			tx.AddRequestHeader(p.name, p.value)
		default:
			tx.AddRequestHeader("Cookie", p.name+"="+p.value)
		}
	}
	tx.ProcessRequestHeaders()
	_, _ = tx.ProcessRequestBody()

	// reference
	sat := func(v string) bool {
		if lower {
			v = vpLowerASCII(v)
		}
		return (v == "x") != neg
	}
	var want []string // "value" of every satisfying selected item (transformed)
	if t.count {
		n := 0
		for _, p := range pairs {
			if t.sel(p) {
				n++
			}
		}
		v := vpD(n)
		if sat(v) {
			want = append(want, v)
		}
	} else {
		for _, p := range pairs {
			if !t.sel(p) {
				continue
			}
			v := p.value
			if t.names {
				v = p.name
			}
			if sat(v) {
				if lower {
					v = vpLowerASCII(v)
				}
				want = append(want, v)
			}
		}
	}
	fired := false
	var got []string
	for _, mr := range tx.MatchedRules() {
		if mr.Rule().ID() == 1 {
			fired = true
			for _, md := range mr.MatchedDatas() {
				got = append(got, md.Value())
			}
		}
	}
	vp.Assert(fired == (len(want) > 0), "rule over "+t.text+" fired although no selected value satisfies the operator, or did not fire although one does")
	vp.Assert(vpMultisetEq(got, want), "match data of the rule over "+t.text+" differ from the selected values that satisfy the operator")
	tx.ProcessLogging()
	_ = tx.Close()
	vp.Reached("end")
}
