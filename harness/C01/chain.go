package coraza

import (
	"github.com/corazawaf/coraza/v3/internal/vp"
)

// VpC01Chain: a two-link chain with real operators.  Link 1 and link 2 each have a target from
// a small pool, an operator with optional negation, optional t:lowercase and optional
// multiMatch.  The chain fires iff link 1 has a satisfying value and link 2 has one; the match
// data are the satisfying (transformed) values of link 1 followed by those of link 2; a second
// rule placed after the chain is evaluated regardless (configuration order).
func VpC01Chain() {
	pool := []int{1, 5, 16, 8, 3} // ARGS:k, ARGS_NAMES, REQUEST_HEADERS:k, &ARGS, ARGS_GET
	t1i := pool[vp.Choice("target1", vp.Param("POOL", len(pool)))]
	t2i := pool[vp.Choice("target2", vp.Param("POOL", len(pool)))]
	t1, t2 := vpC01Targets[t1i], vpC01Targets[t2i]
	neg1 := vp.Choice("negate1", 2) == 1
	neg2 := vp.Choice("negate2", 2) == 1
	lower := vp.Choice("lowercase", 2) == 1
	multi := vp.Choice("multimatch", 2) == 1
	op := func(neg bool, arg string) string {
		if neg {
			return "!@streq " + arg
		}
		return "@streq " + arg
	}
	a1 := "id:1,phase:2,pass,chain"
	if lower {
		a1 += ",t:lowercase"
	}
	if multi {
		a1 += ",multiMatch"
	}
	conf := "SecRuleEngine On\n" +
		"SecRule " + t1.text + " \"" + op(neg1, "x") + "\" \"" + a1 + "\"\n" +
		"  SecRule " + t2.text + " \"" + op(neg2, "y") + "\"\n" +
		"SecRule ARGS|REQUEST_HEADERS \"@unconditionalMatch\" \"id:2,phase:2,pass\"\n"
	waf := vpBuild("c01chain:"+conf, conf)
	tx := waf.NewTransaction()
	namePool := []string{"k", "K", "j"}
	np := 1 + vp.Choice("npairs", vp.Param("P", 2))
	pairs := make([]vpPair, np)
	for i := 0; i < np; i++ {
		p := vpPair{where: vp.Choice("where", 3), name: namePool[vp.Choice("name", len(namePool))]}
		c := vp.Byte("value")
		vp.Assume(c == 'x' || c == 'X' || c == 'y')
		p.value = string([]byte{c})
		pairs[i] = p
		switch p.where {
		case 0:
			tx.AddGetRequestArgument(p.name, p.value)
		case 1:
			tx.AddPostRequestArgument(p.name, p.value)
		default:
			tx.AddRequestHeader(p.name, p.value)
		}
	}
	tx.ProcessRequestHeaders()
	_, _ = tx.ProcessRequestBody()

	// reference: values of a link that satisfy its operator
	link := func(t vpC01Target, neg bool, arg string, lower, multi bool) []string {
		var vals []string
		if t.count {
			n := 0
			for _, p := range pairs {
				if t.sel(p) {
					n++
				}
			}
			vals = []string{vpD(n)}
		} else {
			for _, p := range pairs {
				if !t.sel(p) {
					continue
				}
				if t.names {
					vals = append(vals, p.name)
				} else {
					vals = append(vals, p.value)
				}
			}
		}
		var out []string
		for _, v := range vals {
			cands := []string{v}
			if lower {
				lv := vpLowerASCII(v)
				if multi && lv != v {
					cands = []string{v, lv} // multiMatch: the original and every changed intermediate
				} else {
					cands = []string{lv}
				}
			}
			for _, c := range cands {
				if (c == arg) != neg {
					out = append(out, c)
				}
			}
		}
		return out
	}
	w1 := link(t1, neg1, "x", lower, multi)
	w2 := link(t2, neg2, "y", false, false)
	wantFired := len(w1) > 0 && len(w2) > 0
	fired, fired2 := false, false
	var got []string
	for _, mr := range tx.MatchedRules() {
		switch mr.Rule().ID() {
		case 1:
			fired = true
			for _, md := range mr.MatchedDatas() {
				got = append(got, md.Value())
			}
		case 2:
			fired2 = true
		}
	}
	vp.Assert(fired == wantFired, "chain "+t1.text+" -> "+t2.text+" fired although a link has no satisfying value, or did not fire although every link has one")
	if wantFired {
		vp.Assert(vpMultisetEq(got, append(append([]string{}, w1...), w2...)), "match data of the chain "+t1.text+" -> "+t2.text+" differ from the satisfying values of its links")
	}
	vp.Assert(fired2, "the rule after the chain was not evaluated")
	tx.ProcessLogging()
	_ = tx.Close()
	vp.Reached("end")
}
