package coraza

// A request is a list of (collection, name, value) triples the harness itself adds.
type vpPair struct {
	where int // 0 query string argument, 1 body argument, 2 header, 3 cookie
	name  string
	value string
}

func vpLowerASCII(s string) string {
	b := []byte(s)
	for i := range b {
		if b[i] >= 'A' && b[i] <= 'Z' {
			b[i] += 32
		}
	}
	return string(b)
}

// target descriptions: text, and the reference selection over the harness's own pair list
type vpC01Target struct {
	text string
	// sel returns (selected, isName) for a pair; count targets are handled separately
	sel   func(p vpPair) bool
	names bool
	count bool
}

func vpArgs(p vpPair) bool { return p.where == 0 || p.where == 1 }

var vpC01Targets = []vpC01Target{
	{"ARGS", vpArgs, false, false},
	{"ARGS:k", func(p vpPair) bool { return vpArgs(p) && vpLowerASCII(p.name) == "k" }, false, false},
	{"ARGS:K", func(p vpPair) bool { return vpArgs(p) && vpLowerASCII(p.name) == "k" }, false, false},
	{"ARGS_GET", func(p vpPair) bool { return p.where == 0 }, false, false},
	{"ARGS_POST", func(p vpPair) bool { return p.where == 1 }, false, false},
	{"ARGS_NAMES", vpArgs, true, false},
	{"ARGS_NAMES:k", func(p vpPair) bool { return vpArgs(p) && vpLowerASCII(p.name) == "k" }, true, false},
	{"ARGS_NAMES:K", func(p vpPair) bool { return vpArgs(p) && vpLowerASCII(p.name) == "k" }, true, false},
	{"&ARGS", vpArgs, false, true},
	{"&ARGS:k", func(p vpPair) bool { return vpArgs(p) && vpLowerASCII(p.name) == "k" }, false, true},
	{"ARGS|!ARGS:k", func(p vpPair) bool { return vpArgs(p) && vpLowerASCII(p.name) != "k" }, false, false},
	{"ARGS|!ARGS:K", func(p vpPair) bool { return vpArgs(p) && vpLowerASCII(p.name) != "k" }, false, false},
	{"ARGS_NAMES|!ARGS_NAMES:K", func(p vpPair) bool { return vpArgs(p) && vpLowerASCII(p.name) != "k" }, true, false},
	{"&ARGS|!ARGS:K", func(p vpPair) bool { return vpArgs(p) && vpLowerASCII(p.name) != "k" }, false, true},
	{"ARGS:/^k/", func(p vpPair) bool { return vpArgs(p) && len(p.name) > 0 && vpLowerASCII(p.name)[0] == 'k' }, false, false},
	{"ARGS|!ARGS:/^k/", func(p vpPair) bool {
		return vpArgs(p) && !(len(p.name) > 0 && vpLowerASCII(p.name)[0] == 'k')
	}, false, false},
	{"REQUEST_HEADERS:k", func(p vpPair) bool { return p.where == 2 && vpLowerASCII(p.name) == "k" }, false, false},
	{"REQUEST_COOKIES", func(p vpPair) bool { return p.where == 3 }, false, false},
	{"ARGS_GET|REQUEST_COOKIES:k", func(p vpPair) bool { return p.where == 0 || p.where == 3 && vpLowerASCII(p.name) == "k" }, false, false},
	// regex keys on the *_NAMES collections (names are matched without regard to case)
	{"ARGS_NAMES:/^k/", func(p vpPair) bool { return vpArgs(p) && len(p.name) > 0 && vpLowerASCII(p.name)[0] == 'k' }, true, false},
	{"&ARGS_NAMES:/^k/", func(p vpPair) bool { return vpArgs(p) && len(p.name) > 0 && vpLowerASCII(p.name)[0] == 'k' }, true, true},
	{"REQUEST_HEADERS_NAMES:/^k/", func(p vpPair) bool { return p.where == 2 && len(p.name) > 0 && vpLowerASCII(p.name)[0] == 'k' }, true, false},
	{"&REQUEST_HEADERS:/^k/", func(p vpPair) bool { return p.where == 2 && len(p.name) > 0 && vpLowerASCII(p.name)[0] == 'k' }, false, true},
	// regex keys written with an upper-case letter, and with an escape class whose letter case
	// matters (\S is "not white space", \s is "white space"): keys are matched without regard to
	// the case of the *names*, the pattern itself keeps its meaning
	{"ARGS:/^K/", func(p vpPair) bool { return vpArgs(p) && len(p.name) > 0 && vpLowerASCII(p.name)[0] == 'k' }, false, false},
	{"REQUEST_HEADERS:/^K/", func(p vpPair) bool { return p.where == 2 && len(p.name) > 0 && vpLowerASCII(p.name)[0] == 'k' }, false, false},
	{"REQUEST_HEADERS:/^\\S$/", func(p vpPair) bool { return p.where == 2 && len(p.name) == 1 }, false, false},
	{"ARGS:/^\\S$/", func(p vpPair) bool { return vpArgs(p) && len(p.name) == 1 }, false, false},
	// counts of whole plain collections (repeated names count once per value)
	{"&ARGS_GET", func(p vpPair) bool { return p.where == 0 }, false, true},
	{"&REQUEST_COOKIES", func(p vpPair) bool { return p.where == 3 }, false, true},
	{"&REQUEST_HEADERS", func(p vpPair) bool { return p.where == 2 || p.where == 3 }, false, true},
}

