// Package vpstub holds plain-Go replacements for routines that the symbolic executor cannot
// interpret from their own source (assembly in internal/bytealg, fmt's error wrappers).  They
// are interpreted like any other Go code, so they work on symbolic bytes.
package vpstub

func IndexByte(b []byte, c byte) int {
	for i, x := range b {
		if x == c {
			return i
		}
	}
	return -1
}

func IndexByteString(s string, c byte) int {
	for i := 0; i < len(s); i++ {
		if s[i] == c {
			return i
		}
	}
	return -1
}

func LastIndexByte(b []byte, c byte) int {
	for i := len(b) - 1; i >= 0; i-- {
		if b[i] == c {
			return i
		}
	}
	return -1
}

func LastIndexByteString(s string, c byte) int {
	for i := len(s) - 1; i >= 0; i-- {
		if s[i] == c {
			return i
		}
	}
	return -1
}

func Count(b []byte, c byte) int {
	n := 0
	for _, x := range b {
		if x == c {
			n++
		}
	}
	return n
}

func CountString(s string, c byte) int {
	n := 0
	for i := 0; i < len(s); i++ {
		if s[i] == c {
			n++
		}
	}
	return n
}

func Index(a, b []byte) int {
	n := len(b)
	for i := 0; i+n <= len(a); i++ {
		if string(a[i:i+n]) == string(b) {
			return i
		}
	}
	return -1
}

func IndexString(a, b string) int {
	n := len(b)
	for i := 0; i+n <= len(a); i++ {
		if a[i:i+n] == b {
			return i
		}
	}
	return -1
}

func Compare(a, b []byte) int {
	return CompareString(string(a), string(b))
}

func CompareString(a, b string) int {
	if a == b {
		return 0
	}
	if a < b {
		return -1
	}
	return 1
}

type plainErr struct{ msg string }

func (e *plainErr) Error() string { return e.msg }

func NewErr(msg string) error { return &plainErr{msg} }

type wrapErr struct {
	msg string
	err error
}

func (e *wrapErr) Error() string { return e.msg }
func (e *wrapErr) Unwrap() error { return e.err }

func NewWrapErr(msg string, err error) error { return &wrapErr{msg, err} }

// Setenv is the model of os.Setenv: the environment itself is not kept (coraza reads ENV from
// its own collection), only the argument check of the real function.
func Setenv(key, value string) error {
	if len(key) == 0 {
		return NewErr("setenv: invalid argument")
	}
	for i := 0; i < len(key); i++ {
		if key[i] == '=' || key[i] == 0 {
			return NewErr("setenv: invalid argument")
		}
	}
	for i := 0; i < len(value); i++ {
		if value[i] == 0 {
			return NewErr("setenv: invalid argument")
		}
	}
	return nil
}
