package coraza

import (
	"github.com/corazawaf/coraza/v3/internal/corazawaf"
	"github.com/corazawaf/coraza/v3/internal/seclang"
	"github.com/corazawaf/coraza/v3/internal/vp"
)

// vpC16Compile compiles one or more configuration fragments (as if split across files) on a
// fresh WAF.
func vpC16Compile(fragments ...string) (*corazawaf.WAF, error) {
	waf := corazawaf.NewWAF()
	p := seclang.NewParser(waf)
	for _, f := range fragments {
		if err := p.FromString(f); err != nil {
			return nil, err
		}
	}
	return waf, nil
}

// vpC16Sig is an observable signature of a compiled rule set: metadata of every rule plus the
// behaviour of a probe transaction (values seen by recording operators, fired rules,
// interruption, TX:s).
func vpC16Sig(waf *corazawaf.WAF, probeKey, probeVal string) []string {
	var sig []string
	for _, r := range waf.Rules.GetRules() {
		s := "rule id=" + vpItoaC16(r.ID_) + " phase=" + vpItoaC16(int(r.Phase_)) + " status=" + vpItoaC16(r.DisruptiveStatus) + " sev=" + r.Severity_.String()
		if r.Msg != nil {
			s += " msg=[" + r.Msg.String() + "]"
		}
		if r.LogData != nil {
			s += " logdata=[" + r.LogData.String() + "]"
		}
		for _, t := range r.Tags_ {
			s += " tag=[" + t + "]"
		}
		if r.HasChain {
			s += " chain"
		}
		if r.Capture {
			s += " capture"
		}
		if r.MultiMatch {
			s += " multimatch"
		}
		s += " mark=" + r.SecMark_ + " op=" + r.Operator_
		sig = append(sig, s)
	}
	vpSeeReset()
	for i := range vpSeeMatch {
		vpSeeMatch[i] = true
	}
	tx := waf.NewTransaction()
	tx.AddGetRequestArgument(probeKey, probeVal)
	tx.AddGetRequestArgument("other", "o")
	tx.AddRequestHeader("Host", "h")
	tx.ProcessRequestHeaders()
	_, _ = tx.ProcessRequestBody()
	for n := 0; n < 4; n++ {
		for _, v := range vpSeen[n] {
			sig = append(sig, "seen"+vpD(n)+"="+v)
		}
	}
	for _, mr := range tx.MatchedRules() {
		sig = append(sig, "fired="+vpItoaC16(mr.Rule().ID()))
	}
	if it := tx.Interruption(); it != nil {
		sig = append(sig, "interrupted by "+vpItoaC16(it.RuleID)+" status "+vpItoaC16(it.Status)+" "+it.Action+" "+it.Data)
	}
	if s := tx.Variables().TX().Get("s"); len(s) > 0 {
		sig = append(sig, "tx.s="+s[0])
	}
	tx.ProcessLogging()
	_ = tx.Close()
	return sig
}

func vpItoaC16(n int) string {
	if n == 0 {
		return "0"
	}
	neg := n < 0
	if neg {
		n = -n
	}
	s := ""
	for n > 0 {
		s = string(rune('0'+n%10)) + s
		n /= 10
	}
	if neg {
		s = "-" + s
	}
	return s
}

func vpUpper(s string) string {
	b := []byte(s)
	for i := range b {
		if b[i] >= 'a' && b[i] <= 'z' {
			b[i] -= 32
		}
	}
	return string(b)
}

// vpC16Safe: bytes the line format can carry inside a single-quoted action value / a key.
func vpC16Safe(s string) {
	for i := 0; i < len(s); i++ {
		c := s[i]
		vp.Assume(c >= 0x21 && c < 0x7f && c != '\'' && c != '"' && c != '\\' && c != '%' && c != '`' && c != '|' && c != '#')
	}
}

// VpC16Equivalent: one rule description, rendered in eleven equivalent ways (letter case of the
// directive and of action names, optional quoting of action values, indentation, continuation
// lines, comment and blank lines, a continuation on the last line, split across two files);
// message, key and operator-argument bytes are symbolic.  Every rendering must compile to the
// same rule set as the canonical one (or be rejected with an error).
func VpC16Equivalent() {
	msg := vp.String("msg", vp.Param("M", 2))
	arg := vp.String("arg", vp.Param("A", 1))
	vpC16Safe(msg)
	vpC16Safe(arg)
	for i := 0; i < len(msg); i++ {
		vp.Assume(msg[i] != ',' && msg[i] != ':')
	}
	for i := 0; i < len(arg); i++ {
		vp.Assume(arg[i] != '@' && arg[i] != '!')
	}
	target := "ARGS:k|!ARGS:other"
	op := "@streq " + arg
	acts := "id:1,phase:2,deny,status:403,msg:'" + msg + "',tag:'T1',setvar:tx.s=1,t:none"
	marker := "SecMarker END\n"
	second := "SecRule ARGS \"@vpsee 0\" \"id:2,phase:2,pass\"\n"
	canon := "SecRuleEngine On\nSecRule " + target + " \"" + op + "\" \"" + acts + "\"\n" + second + marker
	ref, err := vpC16Compile(canon)
	vp.Assert(err == nil, "canonical rendering rejected")
	want := vpC16Sig(ref, "k", arg)

	var frags []string
	what := ""
	switch vp.Choice("rendering", 11) {
	case 9:
		what = "comment line between continuation lines"
		frags = []string{"SecRuleEngine On\nSecRule " + target + " \\\n# a comment inside the directive\n    \"" + op + "\" \\\n  # another one\n    \"" + acts + "\"\n" + second + marker}
	case 10:
		what = "windows line endings"
		frags = []string{"SecRuleEngine On\r\nSecRule " + target + " \"" + op + "\" \"" + acts + "\"\r\n" + second + marker}
	case 0:
		what = "directive in lower case"
		frags = []string{"secruleengine On\nsecrule " + target + " \"" + op + "\" \"" + acts + "\"\n" + second + marker}
	case 1:
		what = "directive in upper case"
		frags = []string{"SECRULEENGINE On\nSECRULE " + target + " \"" + op + "\" \"" + acts + "\"\n" + second + marker}
	case 2:
		what = "action names in upper case"
		frags = []string{"SecRuleEngine On\nSecRule " + target + " \"" + op + "\" \"ID:1,PHASE:2,DENY,STATUS:403,MSG:'" + msg + "',TAG:'T1',SETVAR:tx.s=1,T:none\"\n" + second + marker}
	case 3:
		what = "optional quoting of action values"
		frags = []string{"SecRuleEngine On\nSecRule " + target + " \"" + op + "\" \"id:'1',phase:'2',deny,status:'403',msg:'" + msg + "',tag:T1,setvar:'tx.s=1',t:none\"\n" + second + marker}
	case 4:
		what = "indentation and spaces after commas"
		frags = []string{"  SecRuleEngine On\n\tSecRule " + target + " \"" + op + "\" \"id:1, phase:2, deny, status:403, msg:'" + msg + "', tag:'T1', setvar:tx.s=1, t:none\"\n  " + second + "  " + marker}
	case 5:
		what = "continuation lines"
		frags = []string{"SecRuleEngine On\nSecRule " + target + " \\\n    \"" + op + "\" \\\n    \"" + acts + "\"\n" + second + marker}
	case 6:
		what = "comment and blank lines between directives"
		frags = []string{"# leading comment\n\nSecRuleEngine On\n# SecRule ARGS \"@streq x\" \"id:9,deny\"\n\nSecRule " + target + " \"" + op + "\" \"" + acts + "\"\n   # indented comment\n" + second + "\n" + marker + "# trailing comment"}
	case 7:
		what = "split across two files"
		frags = []string{"SecRuleEngine On\nSecRule " + target + " \"" + op + "\" \"" + acts + "\"\n", second + marker}
	default:
		what = "continuation backslash on the last line"
		frags = []string{"SecRuleEngine On\nSecRule " + target + " \"" + op + "\" \"" + acts + "\"\n" + second + "SecMarker END\\\n"}
	}
	w, err := vpC16Compile(frags...)
	if err != nil {
		vp.Assert(what == "continuation backslash on the last line", what+": equivalent rendering rejected")
		vp.Reached("end")
		return
	}
	got := vpC16Sig(w, "k", arg)
	vp.Assert(vpMultisetEq(got, want) && len(got) == len(want), what+": compiles to a different rule set than the canonical rendering")
	vp.Reached("end")
}

// VpC16RoundTrip: a structured description (quoted action values containing commas, colons and
// spaces; an operator argument containing an escaped double quote; string and regex keys; an
// exclusion; a count) is rendered by an independent renderer, compiled, and read back.
func VpC16RoundTrip() {
	m := vp.String("msg", vp.Param("M", 3))
	for i := 0; i < len(m); i++ {
		c := m[i]
		vp.Assume(c >= 0x20 && c < 0x7f && c != '\'' && c != '"' && c != '\\' && c != '%' && c != '`')
	}
	a := vp.String("arg", vp.Param("A", 2))
	for i := 0; i < len(a); i++ {
		c := a[i]
		vp.Assume(c >= 0x21 && c < 0x7f && c != '\\' && c != '%' && c != '`' && c != '\'')
	}
	vp.Assume(len(a) == 0 || (a[0] != '@' && a[0] != '!'))
	// renderer: '"' inside the operator is written as \"
	opText := ""
	for i := 0; i < len(a); i++ {
		if a[i] == '"' {
			opText += "\\\""
		} else {
			opText += string(a[i])
		}
	}
	// four regex keys that all select r1 (and r2, excluded below): plain; '|' inside a class; an
	// escaped slash; an escaped backslash right before the closing slash - the scanner has to
	// find the end of the pattern, more targets follow
	rx := []string{"/^r[0-9]$/", "/^r[0-9|]$/", "/^r(\\/|[0-9])$/", "/^r[0-9]$|\\\\/"}[vp.Choice("regexkey", 4)]
	conf := "SecRuleEngine On\nSecRule ARGS:k|ARGS:" + rx + "|!ARGS:r2|&ARGS:none \"@streq " + opText + "\" \"id:7,phase:2,pass,msg:'" + m + "',logdata:'" + m + "',tag:'" + m + "',setvar:'tx.s=" + vpC16NoSpace(m) + "'\"\n"
	w, err := vpC16Compile(conf)
	if err != nil {
		// text the parser cannot represent must be rejected, which is allowed
		vp.Reached("end")
		return
	}
	rules := w.Rules.GetRules()
	vp.Assert(len(rules) == 1, "one rule rendered, a different number compiled")
	r := rules[0]
	vp.Assert(r.ID_ == 7 && int(r.Phase_) == 2, "id or phase altered")
	vp.Assert(r.Msg != nil && r.Msg.String() == m, "msg does not round-trip")
	vp.Assert(r.LogData != nil && r.LogData.String() == m, "logdata does not round-trip")
	vp.Assert(len(r.Tags_) == 1 && r.Tags_[0] == m, "tag does not round-trip")
	// behaviour: the operator argument and the target list
	tx := w.NewTransaction()
	tx.AddGetRequestArgument("k", a)
	tx.AddGetRequestArgument("r1", a)
	tx.AddGetRequestArgument("r2", a)
	tx.AddGetRequestArgument("zz", a)
	tx.ProcessRequestHeaders()
	_, _ = tx.ProcessRequestBody()
	keys := []string{}
	for _, mr := range tx.MatchedRules() {
		for _, md := range mr.MatchedDatas() {
			keys = append(keys, md.Key())
		}
	}
	wantKeys := []string{"k", "r1"}
	if a == "0" {
		wantKeys = append(wantKeys, "none") // the count &ARGS:none is 0
	}
	if len(a) > 0 {
		vp.Assert(vpMultisetEq(keys, wantKeys), "operator argument or target list does not round-trip (matched keys differ)")
	}
	if s := tx.Variables().TX().Get("s"); len(keys) > 0 && len(m) > 0 {
		vp.Assert(len(s) == 1 && s[0] == vpC16NoSpace(m), "quoted setvar value does not round-trip")
	}
	tx.ProcessLogging()
	_ = tx.Close()
	vp.Reached("end")
}

// setvar values: keep the bytes but avoid the arithmetic and deletion prefixes
func vpC16NoSpace(m string) string {
	b := []byte(m)
	for i := range b {
		if b[i] == '+' || b[i] == '-' || b[i] == '=' || b[i] == ' ' {
			b[i] = '_'
		}
	}
	return "v" + string(b)
}

// VpC16NearMiss: delete or duplicate one quote character of a canonical rule text, at every
// position: the result must be rejected or compile to the same rule set, never to a different
// one.  (Deleting or duplicating other delimiters - commas, colons, pipes - yields texts that
// are well formed and simply mean something else, so they are not near misses.)
func VpC16NearMiss() {
	line := "SecRule ARGS:k|!ARGS:other \"@streq ab\" \"id:1,phase:2,deny,status:403,msg:'m,1',tag:'T1',setvar:tx.s=1\""
	canon := "SecRuleEngine On\n" + line + "\n"
	ref, err := vpC16Compile(canon)
	vp.Assert(err == nil, "canonical rendering rejected")
	want := vpC16Sig(ref, "k", "ab")
	var pos []int
	for i := 0; i < len(line); i++ {
		if line[i] == '"' || line[i] == '\'' {
			pos = append(pos, i)
		}
	}
	p := pos[vp.Choice("position", len(pos))]
	var mutated string
	if vp.Choice("edit", 2) == 0 {
		mutated = line[:p] + line[p+1:] // delete
	} else {
		mutated = line[:p+1] + line[p:] // duplicate
	}
	w, err := vpC16Compile("SecRuleEngine On\n" + mutated + "\n")
	if err != nil {
		vp.Reached("end")
		return
	}
	got := vpC16Sig(w, "k", "ab")
	same := vpMultisetEq(got, want) && len(got) == len(want)
	if line[p] == '\'' {
		vp.Assert(same, "unbalanced single quote compiled into a different rule instead of being rejected: "+mutated)
	} else {
		vp.Assert(same, "unbalanced double quote compiled into a different rule instead of being rejected: "+mutated)
	}
	vp.Reached("end")
}

// VpC16VarCase: variable names are accepted in any letter case; a target written with its
// variable name in lower or mixed case must select what the upper-case spelling selects (or be
// rejected), whatever follows the colon: a string key, a regex key, an XPath.
func VpC16VarCase() {
	targets := []string{"XML:/*", "XML://@*", "XML://b", "ARGS:k", "ARGS:/^k/", "REQUEST_HEADERS:x-k", "&ARGS", "TX:/^a/", "ARGS_GET|!ARGS_GET:k", "REQUEST_COOKIES:/^c/"}
	t := targets[vp.Choice("target", len(targets))]
	// change the case of the variable name only (everything before the first ':' or '|')
	mode := vp.Choice("case", 2)
	alt := ""
	inName := true
	for i := 0; i < len(t); i++ {
		c := t[i]
		if c == ':' {
			inName = false
		}
		if c == '|' || c == '!' || c == '&' {
			inName = true
		}
		if inName && c >= 'A' && c <= 'Z' && (mode == 0 || i%2 == 0) {
			c += 32
		}
		alt += string([]byte{c})
	}
	build := func(target string) (*corazawaf.WAF, error) {
		return vpC16Compile("SecRuleEngine On\nSecRequestBodyAccess On\n" +
			"SecAction \"id:9,phase:1,pass,nolog,ctl:requestBodyProcessor=XML,setvar:tx.ab=1\"\n" +
			"SecRule " + target + " \"@vpsee 0\" \"id:1,phase:2,pass\"\n")
	}
	ref, err := build(t)
	vp.Assert(err == nil, "canonical target rejected: "+t)
	got, err2 := build(alt)
	if err2 != nil {
		vp.Reached("end")
		return // rejected with an error: allowed
	}
	run := func(waf *corazawaf.WAF) []string {
		vpSeeReset()
		vpSeeMatch[0] = true
		tx := waf.NewTransaction()
		tx.ProcessURI("/p?k=1&j=2", "POST", "HTTP/1.1")
		tx.AddRequestHeader("Host", "h")
		tx.AddRequestHeader("X-K", "hv")
		tx.AddRequestHeader("Cookie", "c1=cv; d=dv")
		tx.AddRequestHeader("Content-Type", "text/xml")
		tx.ProcessRequestHeaders()
		_, _, _ = tx.WriteRequestBody([]byte("<r a=\"av\"><a>attack</a><b>x</b></r>"))
		_, _ = tx.ProcessRequestBody()
		out := append([]string{}, vpSeen[0]...)
		tx.ProcessLogging()
		_ = tx.Close()
		return out
	}
	vp.Assert(vpMultisetEq(run(ref), run(got)), "target "+alt+" is accepted but does not select what "+t+" selects")
	vp.Reached("end")
}
