package coraza

import (
	"github.com/corazawaf/coraza/v3/internal/vp"
)

// VpC08Chain: a chain of 1..3 links whose starter carries a disruptive or flow action, followed
// by a rule in the same phase and one in the next phase.  The starter's action must take
// effect exactly when every link matched, links are evaluated in order and evaluation of the
// chain stops at the first link that does not match.
func VpC08Chain() {
	n := 1 + vp.Choice("links", vp.Param("LINKS", 3))
	actions := []string{"deny", "pass,skip:1", "allow", "allow:phase", "pass,skipAfter:M", "pass,setvar:tx.hit=1"}
	ai := vp.Choice("action", len(actions))
	act := actions[ai]
	conf := "SecRuleEngine On\n"
	for i := 0; i < n; i++ {
		a := ""
		if i == 0 {
			a = "id:1,phase:1," + act
		}
		if i < n-1 {
			if a != "" {
				a += ","
			}
			a += "chain"
		}
		if a == "" {
			a = "t:none"
		}
		conf += "SecRule ARGS \"@vprec " + vpDigit(i) + "\" \"" + a + "\"\n"
	}
	conf += "SecRule ARGS \"@vprec 3\" \"id:2,phase:1,pass\"\n"
	conf += "SecMarker M\n"
	conf += "SecRule ARGS \"@vprec 4\" \"id:3,phase:1,pass\"\n"
	conf += "SecRule ARGS \"@vprec 5\" \"id:4,phase:2,pass\"\n"
	conf += "SecRule ARGS \"@vprec 9\" \"id:10,phase:5,pass\"\n"
	waf := vpBuildWAF("c08chain:"+vpDigit(n)+vpDigit(ai), conf)
	for i := 0; i < 6; i++ {
		vpMatchBit[i] = vp.Bool("match")
	}
	vpMatchBit[9] = true
	tx := waf.NewTransaction()
	got := vpDrivePhases(tx)

	var want [6][]int
	all := true
	for i := 0; i < n; i++ {
		want[1] = append(want[1], i)
		if !vpMatchBit[i] {
			all = false
			break
		}
	}
	r3, r4, p2 := true, true, true
	interrupted := false
	if all {
		switch ai {
		case 0:
			interrupted = true
			r3, r4, p2 = false, false, false
		case 1:
			r3 = false
		case 2:
			r3, r4, p2 = false, false, false
		case 3:
			r3, r4 = false, false
		case 4:
			r3 = false
		}
	}
	if r3 {
		want[1] = append(want[1], 3)
	}
	if r4 {
		want[1] = append(want[1], 4)
	}
	if p2 {
		want[2] = append(want[2], 5)
	}
	want[5] = append(want[5], 9)
	for ph := 1; ph <= 5; ph++ {
		vp.Assert(vpSameInts(got[ph], want[ph]), "phase "+vpDigit(ph)+": evaluated rules differ from the documented chain semantics ("+act+")")
	}
	vp.Assert((tx.Interruption() != nil) == interrupted, "chain starter's disruptive action did not follow 'all links matched'")
	hit := tx.Variables().TX().Get("hit")
	if ai == 5 {
		// non-disruptive actions of the starter run when the starter itself matches
		vp.Assert((len(hit) == 1) == vpMatchBit[0], "starter's non-disruptive action did not follow the starter's own match")
	}
	matched := tx.MatchedRules()
	has1 := false
	for _, m := range matched {
		if m.Rule().ID() == 1 {
			has1 = true
		}
	}
	vp.Assert(has1 == all, "chain reported as matched although a link did not match (or the reverse)")
	_ = tx.Close()
	vp.Reached("end")
}
