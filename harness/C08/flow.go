package coraza

import (
	"github.com/corazawaf/coraza/v3/internal/vp"
)

// VpC08Flow: k rules in configuration order, one of which (the "jumper") carries a flow or
// disruptive action; an optional SecMarker M at any position; a logging-phase rule at the end.
// Every subset of the rules may match.  The sequence of rules whose operator is evaluated, per
// phase, must equal a reference interpreter of the documented semantics.
func VpC08Flow() { vpC08Flow() }

// VpC08FlowLate: the same check with fewer rules spread over all four rule phases, so that flow
// actions sit in response-phase rules too (allow:request in phase 3 or 4, skipAfter over a phase end).
func VpC08FlowLate() { vpC08Flow() }

func vpC08Flow() {
	k := vp.Param("K", 3)
	np := vp.Param("PHASES", 2) // rules live in phases 1..np
	actions := []string{"", "skip:1", "skip:2", "skipAfter:M", "allow", "allow:phase", "allow:request", "deny"}
	j := vp.Choice("jumper", k)
	act := actions[1+vp.Choice("action", len(actions)-1)]
	markerPos := vp.Choice("marker", k+2) // k+1 = absent; otherwise before rule index markerPos (k = after all)
	detect := vp.Choice("detectiononly", 2) == 1
	var phase [8]int
	key := "c08:" + vpDigit(j) + act + ":" + vpDigit(markerPos)
	conf := "SecRuleEngine On\n"
	if detect {
		conf = "SecRuleEngine DetectionOnly\n"
		key += "D"
	}
	for i := 0; i < k; i++ {
		phase[i] = 1 + vp.Choice("phase", np)
		key += vpDigit(phase[i])
		if markerPos == i {
			conf += "SecMarker M\n"
		}
		a := "pass"
		if i == j {
			a = act
			if act != "deny" && act != "allow" && act != "allow:phase" && act != "allow:request" {
				a = "pass," + act
			}
		}
		conf += "SecRule ARGS \"@vprec " + vpDigit(i) + "\" \"id:" + vpDigit(i+1) + ",phase:" + vpDigit(phase[i]) + "," + a + "\"\n"
	}
	if markerPos == k {
		conf += "SecMarker M\n"
	}
	conf += "SecRule ARGS \"@vprec 9\" \"id:10,phase:5,pass\"\n"
	if act == "skip:1" || act == "skip:2" {
		// whether a SecMarker counts as one of the N skipped rules is not settled by the
		// documentation: shapes with a marker after the jumper are excluded
		vp.Assume(markerPos == k+1 || markerPos <= j)
	}
	waf := vpBuildWAF(key, conf)
	for i := 0; i < k; i++ {
		vpMatchBit[i] = vp.Bool("match")
	}
	vpMatchBit[9] = true
	tx := waf.NewTransaction()
	got := vpDrivePhases(tx)

	// ---- reference interpreter of the documented semantics -------------------------------
	var want [6][]int
	allowAll, allowRequest, interrupted := false, false, false
	for ph := 1; ph <= 5; ph++ {
		if ph == 5 {
			want[5] = append(want[5], 9)
			continue
		}
		if interrupted || allowAll || (allowRequest && ph <= 2) {
			continue
		}
		skip := 0
		skipAfter := false
		for i := 0; i < k; i++ {
			if skipAfter && markerPos == i {
				skipAfter = false // marker M passed: evaluation resumes with the next rule
			}
			if phase[i] != ph {
				continue
			}
			if skipAfter {
				continue
			}
			if skip > 0 {
				skip--
				continue
			}
			want[ph] = append(want[ph], i)
			if !vpMatchBit[i] || i != j {
				continue
			}
			stop := false
			switch act {
			case "skip:1":
				skip = 1
			case "skip:2":
				skip = 2
			case "skipAfter:M":
				skipAfter = true
			case "allow":
				if !detect {
					allowAll = true
					stop = true
				}
			case "allow:phase":
				if !detect {
					stop = true
				}
			case "allow:request":
				if !detect {
					if ph <= 2 {
						allowRequest = true
						stop = true
					} else {
						// allow:request outside the request phases: documented scope is the request phases only
						stop = false
					}
				}
			case "deny":
				if !detect {
					interrupted = true
					stop = true
				}
			}
			if stop {
				break
			}
		}
	}
	for ph := 1; ph <= 5; ph++ {
		vp.Assert(vpSameInts(got[ph], want[ph]), "phase "+vpDigit(ph)+": evaluated rules differ from the documented semantics of "+act)
	}
	vp.Assert((tx.Interruption() != nil) == interrupted, "interruption state differs from the reference")
	_ = tx.Close()
	vp.Reached("end")
}
