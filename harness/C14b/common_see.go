package coraza

import (
	"github.com/corazawaf/coraza/v3/experimental/plugins/plugintypes"
	"github.com/corazawaf/coraza/v3/internal/corazawaf"
	"github.com/corazawaf/coraza/v3/internal/operators"
	"github.com/corazawaf/coraza/v3/internal/seclang"
	"github.com/corazawaf/coraza/v3/internal/transformations"
	"github.com/corazawaf/coraza/v3/internal/vp"
)

// @vpsee <n>: records every value rule n's operator is evaluated against; answers with the
// n-th match bit.
var (
	vpSeen     [8][]string
	vpSeeMatch [8]bool
)

type vpSeeOp struct{ n int }

func (o *vpSeeOp) Evaluate(_ plugintypes.TransactionState, v string) bool {
	vpSeen[o.n] = append(vpSeen[o.n], v)
	return vpSeeMatch[o.n]
}

func init() {
	operators.Register("vpsee", func(options plugintypes.OperatorOptions) (plugintypes.Operator, error) {
		return &vpSeeOp{n: int(options.Arguments[0] - '0')}, nil
	})
}

func vpSeeReset() {
	for i := range vpSeen {
		vpSeen[i] = nil
		vpSeeMatch[i] = false
	}
}

func vpBuild(key, conf string) *corazawaf.WAF {
	return vp.Setup(key, func() any {
		waf := corazawaf.NewWAF()
		p := seclang.NewParser(waf)
		if err := p.FromString(conf); err != nil {
			panic("harness configuration rejected: " + err.Error() + "\n" + conf)
		}
		return waf
	}).(*corazawaf.WAF)
}

func vpD(n int) string { return string(rune('0' + n)) }

// vpApply applies the named transformations, in order, through the real functions.
func vpApply(names []string, v string) string {
	for _, n := range names {
		f, err := transformations.GetTransformation(n)
		if err != nil {
			panic(err)
		}
		out, _, err := f(v)
		if err == nil {
			v = out
		}
	}
	return v
}

// vpCount is the number of elements of l equal to s.
func vpCount(l []string, s string) int {
	c := 0
	for _, e := range l {
		if e == s {
			c++
		}
	}
	return c
}

// vpMultisetEq: a and b hold the same strings with the same multiplicities.
func vpMultisetEq(a, b []string) bool {
	if len(a) != len(b) {
		return false
	}
	ok := true
	for _, e := range a {
		if vpCount(a, e) != vpCount(b, e) {
			ok = false
		}
	}
	return ok
}
