package coraza

import (
	"github.com/corazawaf/coraza/v3/internal/vp"
)

// VpC14MultiMatch: with multiMatch the operator is evaluated against the original value and
// against every intermediate value that differs from its predecessor, and against nothing
// else; without multiMatch, against the final value only.  Transformation lists of length 1..3
// from a pool; the value is symbolic.
func VpC14MultiMatch() {
	lists := [][]string{
		{"lowercase"}, {"removeNulls", "lowercase"}, {"lowercase", "trim", "removeNulls"}, {"urlDecodeUni", "lowercase"},
		{"trim", "length"}, {"hexDecode", "lowercase"}, {"urlDecode", "urlDecode"}, {"compressWhitespace", "trimLeft", "uppercase"},
	}
	li := vp.Choice("list", vp.Param("LISTS", len(lists)))
	mm := vp.Choice("multimatch", 2) == 1
	acts := "id:1,phase:1,pass"
	if mm {
		acts += ",multiMatch"
	}
	for _, t := range lists[li] {
		acts += ",t:" + t
	}
	key := "c14mm:" + vpD(li)
	if mm {
		key += "M"
	}
	waf := vpBuild(key, "SecRuleEngine On\nSecRule ARGS \"@vpsee 0\" \""+acts+"\"\n")
	v := vp.String("value", vp.Param("N", 2))
	for i := 0; i < len(v); i++ {
		vp.Assume(v[i] < 0x80)
	}
	vpSeeReset()
	tx := waf.NewTransaction()
	tx.AddGetRequestArgument("a", v)
	tx.ProcessRequestHeaders()
	seen := vpSeen[0]
	// reference: the chain of values, each step through the real transformation function
	chain := []string{v}
	cur := v
	for _, t := range lists[li] {
		next := vpApply([]string{t}, cur)
		chain = append(chain, next)
		cur = next
	}
	if !mm {
		vp.Assert(len(seen) == 1 && seen[0] == cur, "without multiMatch the operator did not see exactly the final transformed value")
	} else {
		vp.Assert(len(seen) >= 1 && seen[0] == v, "multiMatch: the original value was not evaluated first")
		for i := 1; i < len(chain); i++ {
			if chain[i] != chain[i-1] {
				vp.Assert(vpCount(seen, chain[i]) >= 1, "multiMatch: an intermediate value that differs from its predecessor was not evaluated (step "+vpD(i)+": t:"+lists[li][i-1]+")")
			}
		}
		for _, s := range seen {
			vp.Assert(vpCount(chain, s) >= 1, "multiMatch: the operator saw a value that is neither the original nor an intermediate value")
		}
	}
	tx.ProcessLogging()
	_ = tx.Close()
	vp.Reached("end")
}
