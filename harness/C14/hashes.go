package transformations

import (
	"crypto/md5"
	"crypto/sha1"

	"github.com/corazawaf/coraza/v3/internal/vp"
)

// md5 / sha1: the transformation returns the raw digest of exactly the input bytes, reports
// "changed", leaves the input alone, and is a function of the input. The reference is the
// one-shot Sum of the standard library over the same symbolic bytes; the block function both
// sides end in is the portable Go body (blockGeneric), the assembly variants being out of reach.
func vpC14Hash(name string, t func(string) (string, bool, error), ref func([]byte) []byte) {
	n := vp.Choice("len", vp.Param("N", 3)+1)
	var s string
	if n == vp.Param("N", 3) && vp.Param("LONG", 0) > 0 {
		// one case that crosses the 64-byte block boundary: a concrete prefix, symbolic tail
		pre := make([]byte, vp.Param("LONG", 0))
		for i := range pre {
			pre[i] = byte('a' + i%26)
		}
		s = string(pre) + vp.String("s", n)
	} else {
		s = vp.String("s", n)
	}
	keep := string(append([]byte(nil), s...))
	out, changed, err := t(s)
	vp.Assert(err == nil, name+" returned an error")
	vp.Assert(s == keep, name+" modified its input")
	vp.Assert(changed, name+" did not report a change")
	want := string(ref([]byte(keep)))
	vp.Assert(out == want, name+" is not the standard digest of its input")
	out2, changed2, err2 := t(s)
	vp.Assert(out2 == out && changed2 == changed && err2 == nil, name+" is not deterministic")
	vp.Observe("out", out)
	vp.Reached("end")
}

func VpC14MD5() {
	vpC14Hash("md5", md5T, func(b []byte) []byte { s := md5.Sum(b); return s[:] })
}

func VpC14SHA1() {
	vpC14Hash("sha1", sha1T, func(b []byte) []byte { s := sha1.Sum(b); return s[:] })
}
