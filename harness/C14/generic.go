package transformations

import (
	"github.com/corazawaf/coraza/v3/experimental/plugins/plugintypes"
	"github.com/corazawaf/coraza/v3/internal/vp"
)

// vpC14Generic: for every input of length <= N (all byte values): the transformation returns
// normally, without error (unless errOK), leaves its input bytes intact, is deterministic and
// never reports "unchanged" for an output that differs from its input.
func vpC14Generic(name string, f plugintypes.Transformation, errOK bool) {
	n := vp.Choice("len", vp.Param("N", 3)+1)
	s := vp.String("s", n)
	if vp.Param("ASCII", 0) == 1 {
		for i := 0; i < len(s); i++ {
			vp.Assume(s[i] < 0x80)
		}
	}
	keep := string([]byte(s)) // private copy of the input bytes
	out, changed, err := f(s)
	if !errOK {
		vp.Assert(err == nil, name+" returned an error")
	}
	vp.Assert(s == keep, name+" modified its input")
	if !changed && err == nil {
		vp.Assert(out == s, name+" reported unchanged but output differs from input")
	}
	out2, changed2, err2 := f(keep)
	vp.Assert(out2 == out && changed2 == changed && (err2 == nil) == (err == nil), name+" is not deterministic")
	vp.Observe("out", out)
	vp.Observe("changed", changed)
	vp.Reached("end")
}

func VpC14GenUrlDecodeUni()       { vpC14Generic("urlDecodeUni", urlDecodeUni, false) }
func VpC14GenJsDecode()           { vpC14Generic("jsDecode", jsDecode, false) }
func VpC14GenCssDecode()          { vpC14Generic("cssDecode", cssDecode, false) }
func VpC14GenEscapeSeqDecode()    { vpC14Generic("escapeSeqDecode", escapeSeqDecode, false) }
func VpC14GenHexDecode()          { vpC14Generic("hexDecode", hexDecode, true) }
func VpC14GenHexEncode()          { vpC14Generic("hexEncode", hexEncode, false) }
func VpC14GenBase64Decode()       { vpC14Generic("base64Decode", base64decode, false) }
func VpC14GenBase64DecodeExt()    { vpC14Generic("base64DecodeExt", base64decodeext, false) }
func VpC14GenBase64Encode()       { vpC14Generic("base64Encode", base64encode, false) }
func VpC14GenCmdLine()            { vpC14Generic("cmdLine", cmdLine, false) }
func VpC14GenCompressWhitespace() { vpC14Generic("compressWhitespace", compressWhitespace, false) }
func VpC14GenRemoveComments()     { vpC14Generic("removeComments", removeComments, false) }
func VpC14GenRemoveCommentsChar() { vpC14Generic("removeCommentsChar", removeCommentsChar, false) }
func VpC14GenReplaceComments()    { vpC14Generic("replaceComments", replaceComments, false) }
func VpC14GenRemoveNulls()        { vpC14Generic("removeNulls", removeNulls, false) }
func VpC14GenReplaceNulls()       { vpC14Generic("replaceNulls", replaceNulls, false) }
func VpC14GenRemoveWhitespace()   { vpC14Generic("removeWhitespace", removeWhitespace, false) }
func VpC14GenLowercase()          { vpC14Generic("lowercase", lowerCase, false) }
func VpC14GenUppercase()          { vpC14Generic("uppercase", upperCase, false) }
func VpC14GenLength()             { vpC14Generic("length", length, false) }
func VpC14GenTrim()               { vpC14Generic("trim", trim, false) }
func VpC14GenTrimLeft()           { vpC14Generic("trimLeft", trimLeft, false) }
func VpC14GenTrimRight()          { vpC14Generic("trimRight", trimRight, false) }
func VpC14GenNormalisePath()      { vpC14Generic("normalisePath", normalisePath, false) }
func VpC14GenNormalisePathWin()   { vpC14Generic("normalisePathWin", normalisePathWin, false) }
func VpC14GenUrlEncode()          { vpC14Generic("urlEncode", urlEncode, false) }
func VpC14GenUtf8ToUnicode()      { vpC14Generic("utf8toUnicode", utf8ToUnicode, false) }
func VpC14GenNone()               { vpC14Generic("none", none, false) }
func VpC14GenHTMLEntityDecode()   { vpC14Generic("htmlEntityDecode", htmlEntityDecode, false) }
