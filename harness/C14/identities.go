package transformations

import (
	"github.com/corazawaf/coraza/v3/experimental/plugins/plugintypes"
	"github.com/corazawaf/coraza/v3/internal/vp"
)

func vpC14Input() string {
	n := vp.Choice("len", vp.Param("N", 3)+1)
	return vp.String("s", n)
}

// VpC14HexRoundTrip: hexDecode(hexEncode(x)) == x for every x.
func VpC14HexRoundTrip() {
	s := vpC14Input()
	enc, _, err := hexEncode(s)
	vp.Assert(err == nil, "hexEncode error")
	vp.Assert(len(enc) == 2*len(s), "hexEncode length is not 2*len")
	dec, _, err := hexDecode(enc)
	vp.Assert(err == nil, "hexDecode rejects hexEncode output")
	vp.Assert(dec == s, "hexDecode(hexEncode(x)) != x")
	vp.Observe("enc", enc)
	vp.Reached("end")
}

// VpC14Base64RoundTrip: base64Decode(base64Encode(x)) == x, also through the forgiving decoder.
func VpC14Base64RoundTrip() {
	s := vpC14Input()
	enc, _, err := base64encode(s)
	vp.Assert(err == nil, "base64Encode error")
	dec, _, err := base64decode(enc)
	vp.Assert(err == nil, "base64Decode error")
	vp.Assert(dec == s, "base64Decode(base64Encode(x)) != x")
	dec2, _, err := base64decodeext(enc)
	vp.Assert(err == nil, "base64DecodeExt error")
	vp.Assert(dec2 == s, "base64DecodeExt(base64Encode(x)) != x")
	vp.Observe("enc", enc)
	vp.Reached("end")
}

// VpC14UrlRoundTrip: urlDecode(urlEncode(x)) == x.
func VpC14UrlRoundTrip() {
	s := vpC14Input()
	enc, changed, err := urlEncode(s)
	vp.Assert(err == nil, "urlEncode error")
	if !changed {
		vp.Assert(enc == s, "urlEncode reported unchanged but output differs")
	}
	dec, _, err := urlDecode(enc)
	vp.Assert(err == nil, "urlDecode error")
	vp.Assert(dec == s, "urlDecode(urlEncode(x)) != x")
	decu, _, err := urlDecodeUni(enc)
	vp.Assert(err == nil, "urlDecodeUni error")
	vp.Assert(decu == s, "urlDecodeUni(urlEncode(x)) != x")
	vp.Observe("enc", enc)
	vp.Reached("end")
}

// VpC14Length: length(x) is the decimal rendering of len(x).
func VpC14Length() {
	s := vpC14Input()
	out, _, err := length(s)
	vp.Assert(err == nil, "length error")
	want := ""
	n := len(s)
	if n == 0 {
		want = "0"
	}
	for n > 0 {
		want = string(rune('0'+n%10)) + want
		n /= 10
	}
	vp.Assert(out == want, "length(x) is not the decimal of len(x)")
	vp.Reached("end")
}

// VpC14Case: lowercase / uppercase equal the ASCII definitions on ASCII input.
func VpC14Case() {
	s := vpC14Input()
	for i := 0; i < len(s); i++ {
		vp.Assume(s[i] < 0x80)
	}
	lo, chLo, err := lowerCase(s)
	vp.Assert(err == nil, "lowercase error")
	up, chUp, err := upperCase(s)
	vp.Assert(err == nil, "uppercase error")
	vp.Assert(len(lo) == len(s) && len(up) == len(s), "case mapping changed the length of ASCII input")
	difLo, difUp := false, false
	for i := 0; i < len(s); i++ {
		c := s[i]
		wl, wu := c, c
		if c >= 'A' && c <= 'Z' {
			wl = c + 32
		}
		if c >= 'a' && c <= 'z' {
			wu = c - 32
		}
		vp.Assert(lo[i] == wl, "lowercase differs from the ASCII definition")
		vp.Assert(up[i] == wu, "uppercase differs from the ASCII definition")
		difLo = difLo || wl != c
		difUp = difUp || wu != c
	}
	vp.Assert(chLo == difLo, "lowercase change flag wrong")
	vp.Assert(chUp == difUp, "uppercase change flag wrong")
	vp.Reached("end")
}

func vpC14Idem(name string, f plugintypes.Transformation) {
	s := vpC14Input()
	if vp.Param("ASCII", 0) == 1 {
		for i := 0; i < len(s); i++ {
			vp.Assume(s[i] < 0x80)
		}
	}
	once, _, err := f(s)
	vp.Assert(err == nil, name+" error")
	twice, changed, err := f(once)
	vp.Assert(err == nil, name+" error on its own output")
	vp.Assert(twice == once, name+" is not idempotent")
	vp.Assert(!changed || name == "compressWhitespace", name+" reports a change on its own output")
	vp.Observe("once", once)
	vp.Reached("end")
}

func VpC14IdemTrim()               { vpC14Idem("trim", trim) }
func VpC14IdemTrimLeft()           { vpC14Idem("trimLeft", trimLeft) }
func VpC14IdemTrimRight()          { vpC14Idem("trimRight", trimRight) }
func VpC14IdemRemoveNulls()        { vpC14Idem("removeNulls", removeNulls) }
func VpC14IdemRemoveWhitespace()   { vpC14Idem("removeWhitespace", removeWhitespace) }
func VpC14IdemCompressWhitespace() { vpC14Idem("compressWhitespace", compressWhitespace) }

// VpC14TrimDef: trim removes exactly the leading and trailing ASCII white space.
func VpC14TrimDef() {
	s := vpC14Input()
	isSp := func(c byte) bool { return c == ' ' || c == '\t' || c == '\n' || c == '\r' || c == '\f' || c == '\v' }
	a, b := 0, len(s)
	for a < b && isSp(s[a]) {
		a++
	}
	for b > a && isSp(s[b-1]) {
		b--
	}
	out, changed, _ := trim(s)
	vp.Assert(out == s[a:b], "trim differs from its definition")
	vp.Assert(changed == (out != s), "trim change flag wrong")
	outL, _, _ := trimLeft(s)
	vp.Assert(outL == s[a:] || a == len(s) && outL == "", "trimLeft differs from its definition")
	outR, _, _ := trimRight(s)
	if a == b {
		vp.Assert(outR == "" || outR == s[:b], "trimRight differs from its definition")
	} else {
		vp.Assert(outR == s[:b], "trimRight differs from its definition")
	}
	vp.Reached("end")
}

// VpC14NullsDef: removeNulls / replaceNulls equal their bytewise definitions.
func VpC14NullsDef() {
	s := vpC14Input()
	var rm, rp []byte
	for i := 0; i < len(s); i++ {
		if s[i] == 0 {
			rp = append(rp, ' ')
		} else {
			rm = append(rm, s[i])
			rp = append(rp, s[i])
		}
	}
	o1, c1, _ := removeNulls(s)
	vp.Assert(o1 == string(rm), "removeNulls differs from its definition")
	vp.Assert(c1 == (o1 != s), "removeNulls change flag wrong")
	o2, c2, _ := replaceNulls(s)
	vp.Assert(o2 == string(rp), "replaceNulls differs from its definition")
	vp.Assert(c2 == (o2 != s), "replaceNulls change flag wrong")
	vp.Reached("end")
}
