package transformations

import "github.com/corazawaf/coraza/v3/internal/vp"

// VpC14UrlDecode: urlDecode is total, deterministic, leaves its input intact and never reports
// "unchanged" for an output that differs from the input; decoding is checked against a naive
// reference decoder.
func VpC14UrlDecode() {
	n := vp.Choice("len", vp.Param("N", 4)+1)
	s := vp.String("s", n)
	keep := string([]byte(s)) // private copy of the input bytes
	out, changed, err := urlDecode(s)
	vp.Assert(err == nil, "urlDecode returned an error")
	vp.Assert(s == keep, "urlDecode modified its input")
	if !changed {
		vp.Assert(out == s, "urlDecode reported unchanged but output differs")
	}
	vp.Assert(out == refURLDecode(keep), "urlDecode differs from the reference decoder")
	out2, changed2, _ := urlDecode(keep)
	vp.Assert(out2 == out && changed2 == changed, "urlDecode is not deterministic")
	vp.Observe("out", out)
	vp.Observe("changed", changed)
	vp.Reached("end")
}

func refHexVal(c byte) (byte, bool) {
	switch {
	case c >= '0' && c <= '9':
		return c - '0', true
	case c >= 'a' && c <= 'f':
		return c - 'a' + 10, true
	case c >= 'A' && c <= 'F':
		return c - 'A' + 10, true
	}
	return 0, false
}

func refURLDecode(s string) string {
	var out []byte
	for i := 0; i < len(s); {
		c := s[i]
		if c == '%' && i+2 < len(s) {
			h, ok1 := refHexVal(s[i+1])
			l, ok2 := refHexVal(s[i+2])
			if ok1 && ok2 {
				out = append(out, h<<4|l)
				i += 3
				continue
			}
		}
		if c == '+' {
			c = ' '
		}
		out = append(out, c)
		i++
	}
	return string(out)
}
