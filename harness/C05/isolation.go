package coraza

import (
	"github.com/corazawaf/coraza/v3/types"
	"io"

	"github.com/corazawaf/coraza/v3/collection"
	"github.com/corazawaf/coraza/v3/internal/corazawaf"
	"github.com/corazawaf/coraza/v3/internal/vp"
	"github.com/corazawaf/coraza/v3/types/variables"
)

// every "dirtying" rule is triggered by the request header X-Dirt; the probe never sends it
var vpC05Dirt = []string{
	"pass,setvar:tx.dirty=1,capture",
	"deny,status:403",
	"pass,skip:5",
	"pass,skipAfter:NOWHERE",
	"allow",
	"allow:request",
	"pass,ctl:ruleEngine=DetectionOnly",
	"pass,ctl:ruleEngine=Off",
	"pass,ctl:auditEngine=On",
	"pass,ctl:auditLogParts=+E",
	"pass,ctl:requestBodyAccess=Off",
	"pass,ctl:requestBodyLimit=2",
	"pass,ctl:forceRequestBodyVariable=On",
	"pass,ctl:responseBodyAccess=Off",
	"pass,ctl:responseBodyLimit=1",
	"pass,ctl:ruleRemoveById=7",
	"pass,ctl:ruleRemoveById=7-9",
	"pass,ctl:ruleRemoveTargetById=7;ARGS:a",
	"pass,ctl:ruleRemoveByTag=tt",
	"pass,ctl:ruleRemoveTargetByTag=tt;ARGS:a",
	"pass,ctl:requestBodyProcessor=URLENCODED",
	"pass,ctl:responseBodyProcessor=NOSUCH",
	"pass,log,auditlog,msg:'dirt',severity:1",
}

func vpC05Conf() string {
	c := "SecRuleEngine On\nSecRequestBodyAccess On\nSecResponseBodyAccess On\nSecResponseBodyMimeType text/plain\n" +
		"SecRequestBodyLimit 8\nSecRequestBodyInMemoryLimit 2\nSecResponseBodyLimit 8\nSecAuditEngine Off\n"
	for i, d := range vpC05Dirt {
		c += "SecRule REQUEST_HEADERS:x-dirt \"@rx ^(" + vpD(i/10) + vpD(i%10) + ")$\" \"id:" + vpD(1+i/10) + vpD(i%10) + "0,phase:1," + d + "\"\n"
	}
	c += "SecRule ARGS \"@vpsee 0\" \"id:7,phase:1,pass,tag:'tt'\"\n" +
		"SecRule ARGS|REQUEST_BODY \"@vpsee 1\" \"id:8,phase:2,pass\"\n" +
		"SecRule RESPONSE_BODY \"@vpsee 2\" \"id:9,phase:4,pass\"\n" +
		"SecRule TX:dirty|TX:1|HIGHEST_SEVERITY|RES_BODY_ERROR|REQBODY_ERROR|MATCHED_VARS \"@vpsee 3\" \"id:6,phase:5,pass\"\n"
	return c
}

type vpC05Out struct {
	seen        [8][]string
	dump        []string
	fired       []string
	interrupted bool
	reqBody     string
	state       string // per-transaction overrides as the new transaction starts
}

func vpC05Dump(tx *corazawaf.Transaction) []string {
	var out []string
	tx.Variables().All(func(v variables.RuleVariable, col collection.Collection) bool {
		switch v {
		case variables.Duration, variables.Time, variables.TimeDay, variables.TimeEpoch, variables.TimeHour, variables.TimeMin,
			variables.TimeMon, variables.TimeSec, variables.TimeWday, variables.TimeYear, variables.UniqueID,
			variables.MatchedVar, variables.MatchedVarName:
			// time and id variables differ by construction; MATCHED_VAR(_NAME) hold the *last* match,
			// which depends on map iteration order inside one transaction (not on the predecessor)
			return true
		}
		if col == nil {
			return true
		}
		for _, md := range col.FindAll() {
			out = append(out, v.Name()+"|"+md.Key()+"|"+md.Value())
		}
		return true
	})
	// the response-body error variables are reachable through the getters of the concrete type
	if tv, ok := tx.Variables().(*corazawaf.TransactionVariables); ok {
		out = append(out, "RES_BODY_ERROR|"+tv.ResBodyError().Get(), "RES_BODY_ERROR_MSG|"+tv.ResBodyErrorMsg().Get(),
			"RES_BODY_PROCESSOR_ERROR|"+tv.ResBodyProcessorError().Get(), "RES_BODY_PROCESSOR_ERROR_MSG|"+tv.ResBodyProcessorErrorMsg().Get())
	}
	return out
}

func vpC05Probe(tx *corazawaf.Transaction) vpC05Out {
	var o vpC05Out
	// engine, audit and body overrides a ctl may have changed on the predecessor
	o.state = "engine=" + tx.RuleEngine.String() + " audit=" + vpItoaC05(int64(tx.AuditEngine)) + " parts=" + vpPartsString(tx.AuditLogParts) +
		" reqaccess=" + vpB(tx.RequestBodyAccess) + " reqlimit=" + vpItoaC05(tx.RequestBodyLimit) +
		" resaccess=" + vpB(tx.ResponseBodyAccess) + " reslimit=" + vpItoaC05(tx.ResponseBodyLimit) + " force=" + vpB(tx.ForceRequestBodyVariable)
	vpSeeReset()
	for i := range vpSeeMatch {
		vpSeeMatch[i] = true
	}
	tx.AddRequestHeader("Host", "h")
	tx.AddGetRequestArgument("a", "1")
	tx.AddGetRequestArgument("b", "2")
	tx.ProcessRequestHeaders()
	// one byte under the limit: any byte count carried over from the predecessor tips it over
	_, _, _ = tx.WriteRequestBody([]byte("xyz=123"))
	_, _ = tx.ProcessRequestBody()
	if r, err := tx.RequestBodyReader(); err == nil {
		b, _ := io.ReadAll(r)
		o.reqBody = string(b)
	}
	tx.AddResponseHeader("Content-Type", "text/plain")
	tx.ProcessResponseHeaders(200, "HTTP/1.1")
	_, _, _ = tx.WriteResponseBody([]byte("respons"))
	_, _ = tx.ProcessResponseBody()
	tx.ProcessLogging()
	o.seen = vpSeen
	o.dump = vpC05Dump(tx)
	for _, mr := range tx.MatchedRules() {
		o.fired = append(o.fired, vpD(mr.Rule().ID()))
	}
	o.interrupted = tx.IsInterrupted()
	return o
}

// VpC05Isolation: a predecessor transaction dirties the pooled transaction object through real
// operations (one of 23 dirtying actions, a body in memory or spilled to disk, a body reader
// handed out, ProcessLogging run or omitted, Close once or twice); the probe transaction that
// recycles the object must start from, and behave like, a transaction of a brand-new WAF.
func VpC05Isolation() {
	conf := vpC05Conf()
	waf := vpBuild("c05", conf)
	fresh := vpBuild("c05fresh", conf)
	waf.TmpDir = vp.TempDir()
	fresh.TmpDir = vp.TempDir()
	di := vp.Choice("dirt", vp.Param("DIRT", len(vpC05Dirt)))
	// ---- predecessor ------------------------------------------------------------------
	pre := waf.NewTransaction()
	pre.AddRequestHeader("Host", "h")
	pre.AddRequestHeader("X-Dirt", vpD(di/10)+vpD(di%10))
	pre.AddRequestHeader("Cookie", "c=1")
	dirt := vp.String("dirtvalue", 2) // arbitrary bytes: whatever the predecessor carried must not matter
	pre.AddGetRequestArgument("a", dirt)
	pre.AddPostRequestArgument("p", dirt)
	pre.AddRequestHeader("X-Other", dirt)
	pre.ProcessURI("/dirt?a=DIRT", "POST", "HTTP/1.1")
	pre.ProcessRequestHeaders()
	bodyLen := vp.Choice("prebody", 3) // 0: none, 1: in memory, 2: spilled to the temp file
	if bodyLen > 0 {
		_, _, _ = pre.WriteRequestBody([]byte("DIRTYBODY")[:bodyLen*2])
	}
	var handed io.Reader
	if vp.Choice("reader", 2) == 1 {
		handed, _ = pre.RequestBodyReader()
	}
	stop := vp.Choice("stop", 3) // how far the predecessor gets
	if stop >= 1 {
		_, _ = pre.ProcessRequestBody()
		pre.AddResponseHeader("Content-Type", "text/plain")
		pre.ProcessResponseHeaders(200, "HTTP/1.1")
		_, _, _ = pre.WriteResponseBody([]byte("DIRTYRESP"))
		_, _ = pre.ProcessResponseBody()
	}
	if stop >= 2 {
		pre.ProcessLogging()
	}
	_ = pre.Close()
	if vp.Choice("closetwice", 2) == 1 {
		_ = pre.Close()
		// a transaction closed twice must not be handed out twice: two transactions that are alive
		// at the same time are two objects
		t1 := waf.NewTransaction()
		t2 := waf.NewTransaction()
		vp.Assert(t1 != t2, "after a double Close the WAF hands the same transaction object to two live transactions")
		_ = t2.Close()
		_ = t1.Close()
	}
	if handed != nil {
		buf := make([]byte, 4)
		n, err := handed.Read(buf)
		vp.Assert(n == 0 && err == io.EOF, "a body reader handed out by a closed transaction still yields data")
	}
	vp.Assert(vp.LiveFiles() == 0, "temporary file left behind by the closed predecessor")
	// ---- probe on the recycled object vs on a brand-new WAF ------------------------------
	rec := waf.NewTransaction()
	ref := fresh.NewTransaction()
	vp.Assert(vpMultisetEq(vpC05Dump(rec), vpC05Dump(ref)), "a recycled transaction does not start with the variables of a new one")
	o1 := vpC05Probe(rec)
	o2 := vpC05Probe(ref)
	for n := 0; n < 4; n++ {
		vp.Assert(vpMultisetEq(o1.seen[n], o2.seen[n]), "probe rule operator "+vpD(n)+" saw different values on the recycled transaction")
	}
	vp.Assert(vpMultisetEq(o1.fired, o2.fired), "probe fired different rules on the recycled transaction")
	vp.Assert(o1.interrupted == o2.interrupted, "probe interruption differs on the recycled transaction")
	vp.Assert(o1.reqBody == o2.reqBody, "probe request body differs on the recycled transaction")
	vp.Assert(o1.state == o2.state, "a recycled transaction starts with engine / audit / body overrides that differ from a new transaction's")
	for _, e := range o1.dump {
		if vpCount(o1.dump, e) != vpCount(o2.dump, e) {
			vp.Observe("only-or-more-on-recycled", e)
		}
	}
	for _, e := range o2.dump {
		if vpCount(o1.dump, e) != vpCount(o2.dump, e) {
			vp.Observe("only-or-more-on-fresh", e)
		}
	}
	vp.Assert(vpMultisetEq(o1.dump, o2.dump), "probe variables differ on the recycled transaction")
	if handed != nil {
		// the probe buffered a body of its own on the recycled object: the predecessor's reader
		// must not see it
		buf := make([]byte, 8)
		n, err := handed.Read(buf)
		vp.Assert(n == 0 && err == io.EOF, "a body reader handed out by the closed predecessor reads the next transaction's body")
	}
	_ = rec.Close()
	_ = ref.Close()
	vp.Reached("end")
}

func vpB(b bool) string {
	if b {
		return "1"
	}
	return "0"
}

func vpItoaC05(n int64) string {
	if n == 0 {
		return "0"
	}
	neg := n < 0
	if neg {
		n = -n
	}
	s := ""
	for n > 0 {
		s = string(rune('0'+n%10)) + s
		n /= 10
	}
	if neg {
		s = "-" + s
	}
	return s
}

func vpPartsString(p types.AuditLogParts) string {
	b := make([]byte, len(p))
	for i, c := range p {
		b[i] = byte(c)
	}
	return string(b)
}
