// Package vp is the nondeterminism / assertion API used by the verification harnesses.
//
// This file is the NATIVE implementation (used when a solver model is replayed against the
// real build).  Under the symbolic executor every function below is intercepted and given its
// symbolic meaning; the bodies here are never interpreted.
package vp

import (
	"encoding/json"
	"fmt"
	"os"
	"runtime/debug"
	"sort"
	"testing"

	_ "github.com/corazawaf/coraza/v3/internal/vpstub"
)

type Draw struct {
	Tag   string `json:"tag"`
	Kind  string `json:"kind"`
	N     int    `json:"n,omitempty"`
	Int   int64  `json:"int,omitempty"`
	Bytes []byte `json:"bytes,omitempty"`
}

type Observation struct {
	Tag string `json:"tag"`
	Val string `json:"val"`
}

type Case struct {
	Harness string         `json:"harness"`
	Draws   []Draw         `json:"draws"`
	Params  map[string]int `json:"params,omitempty"`
	Repeat  int            `json:"repeat,omitempty"`
}

type Result struct {
	Harness string        `json:"harness"`
	Outcome string        `json:"outcome"` // ok | assert | panic | assume | mismatch
	Msg     string        `json:"msg,omitempty"`
	Where   string        `json:"where,omitempty"`
	Obs     []Observation `json:"observations,omitempty"`
	Reached []string      `json:"reached,omitempty"`
	Runs    int           `json:"runs,omitempty"`
}

type assertFail struct{ msg string }
type assumeFalse struct{}
type mismatch struct{ msg string }

var (
	cur     *Case
	pos     int
	obs     []Observation
	reached map[string]bool
)

func next(tag, kind string) Draw {
	if cur == nil {
		panic("vp: no replay vector loaded")
	}
	if pos >= len(cur.Draws) {
		panic(mismatch{fmt.Sprintf("vector exhausted at draw %q (%s)", tag, kind)})
	}
	d := cur.Draws[pos]
	pos++
	if d.Kind != kind {
		panic(mismatch{fmt.Sprintf("draw %d: vector has %s %q, harness asks %s %q", pos-1, d.Kind, d.Tag, kind, tag)})
	}
	return d
}

func Byte(tag string) byte { return byte(next(tag, "byte").Int) }
func Bool(tag string) bool { return next(tag, "bool").Int != 0 }

// Int returns an arbitrary int in [lo, hi].
func Int(tag string, lo, hi int) int { return int(next(tag, "int").Int) }

// Int64 returns an arbitrary int64.
func Int64(tag string) int64 { return next(tag, "int64").Int }

func Bytes(tag string, n int) []byte {
	d := next(tag, "bytes")
	b := make([]byte, n)
	copy(b, d.Bytes)
	return b
}

// String returns a string of exactly n arbitrary bytes.
func String(tag string, n int) string {
	d := next(tag, "string")
	b := make([]byte, n)
	copy(b, d.Bytes)
	return string(b)
}

// Choice enumerates 0..k-1 (every value is explored).
func Choice(tag string, k int) int {
	if k <= 1 {
		return 0
	}
	return int(next(tag, "choice").Int)
}

// Param reads a bound from the check table (tier dependent).
func Param(name string, def int) int {
	if cur != nil {
		if v, ok := cur.Params[name]; ok {
			return v
		}
	}
	return def
}

func Assume(c bool) {
	if !c {
		panic(assumeFalse{})
	}
}

func Assert(c bool, msg string) {
	if !c {
		panic(assertFail{msg})
	}
}

func Observe(tag string, v any) {
	var s string
	switch x := v.(type) {
	case string:
		s = fmt.Sprintf("%q", x)
	case []byte:
		s = fmt.Sprintf("%q", string(x))
	case error:
		if x == nil {
			s = "<nil>"
		} else {
			s = "<error>"
		}
	case nil:
		s = "<nil>"
	default:
		s = fmt.Sprint(x)
	}
	obs = append(obs, Observation{tag, s})
}

func Reached(tag string) { reached[tag] = true }

// SymbolicMapOrder asks the executor to explore every iteration order of maps (with at most
// max entries) created in the given packages.  Natively the runtime picks the order.
func SymbolicMapOrder(max int, pkgs ...string) {}

var setupCache = map[string]any{}

// Setup runs a concrete, deterministic constructor once per key and returns its result.  Under
// the symbolic executor the constructed state persists across paths (it is built outside the
// per-path undo journal), which avoids rebuilding expensive concrete state on every path.
// The result must not depend on symbolic input.
func Setup(key string, f func() any) any {
	if v, ok := setupCache[key]; ok {
		return v
	}
	v := f()
	setupCache[key] = v
	return v
}

var tempDir string

// TempDir returns a directory private to the current replay case; harnesses configure it as
// the WAF's temporary directory so that LiveFiles can count what is left behind.
func TempDir() string {
	if tempDir == "" {
		d, err := os.MkdirTemp("", "vpreplay")
		if err != nil {
			panic(err)
		}
		tempDir = d
	}
	return tempDir
}

// LiveFiles is the number of files currently present in TempDir.
func LiveFiles() int {
	if tempDir == "" {
		return 0
	}
	es, _ := os.ReadDir(tempDir)
	return len(es)
}

// FaultInjection turns on file-system fault injection (at most max failing calls per path).
// Only the symbolic executor can inject faults; natively no call fails, so counterexamples that
// need a fault are validated by the engine's file model only (reported as such).
func FaultInjection(max int) {}

// Faults is the number of injected file-system failures on this path.
func Faults() int { return 0 }

// FaultedOn reports whether a failure was injected into a file-system call of the given kind
// (create, write, read, readat, close, remove) on this path.
func FaultedOn(op string) bool { return false }

// MarkShared declares the memory reachable from roots (and every package-level variable) as
// shared between goroutines from now on: under the symbolic executor any later store to it that
// is not protected by a mutex or made through sync/atomic, sync.Pool or sync.Map is reported.
// Natively it does nothing (the race detector is the native counterpart).
func MarkShared(roots ...any) {}

// Symbolic reports whether the harness runs under the symbolic executor.
func Symbolic() bool { return false }

func runOne(c *Case, fn func()) (res Result) {
	cur, pos, obs, reached = c, 0, nil, map[string]bool{}
	setupCache = map[string]any{}
	if tempDir != "" {
		os.RemoveAll(tempDir)
		tempDir = ""
	}
	res.Harness = c.Harness
	defer func() {
		res.Obs = obs
		for k := range reached {
			res.Reached = append(res.Reached, k)
		}
		sort.Strings(res.Reached)
		if p := recover(); p != nil {
			switch p := p.(type) {
			case assertFail:
				res.Outcome, res.Msg = "assert", p.msg
			case assumeFalse:
				res.Outcome = "assume"
			case mismatch:
				res.Outcome, res.Msg = "mismatch", p.msg
			default:
				res.Outcome, res.Msg = "panic", fmt.Sprint(p)
				res.Where = string(debug.Stack())
			}
			return
		}
		res.Outcome = "ok"
	}()
	fn()
	return
}

// ReplayMain runs the cases of $VP_REPLAY_FILE against the native build and writes the results
// to $VP_REPLAY_OUT.
func ReplayMain(t *testing.T, harnesses map[string]func()) {
	in := os.Getenv("VP_REPLAY_FILE")
	if in == "" {
		t.Skip("VP_REPLAY_FILE not set")
	}
	data, err := os.ReadFile(in)
	if err != nil {
		t.Fatal(err)
	}
	var cases []Case
	if err := json.Unmarshal(data, &cases); err != nil {
		t.Fatal(err)
	}
	var results []Result
	for i := range cases {
		c := &cases[i]
		fn := harnesses[c.Harness]
		if fn == nil {
			results = append(results, Result{Harness: c.Harness, Outcome: "mismatch", Msg: "no such harness"})
			continue
		}
		n := c.Repeat
		if n < 1 {
			n = 1
		}
		var r Result
		for k := 0; k < n; k++ {
			r = runOne(c, fn)
			r.Runs = k + 1
			if r.Outcome != "ok" {
				break
			}
		}
		results = append(results, r)
	}
	if tempDir != "" {
		// the directory of the last case (earlier ones are removed when the next case starts)
		os.RemoveAll(tempDir)
		tempDir = ""
	}
	out, _ := json.MarshalIndent(results, "", " ")
	if err := os.WriteFile(os.Getenv("VP_REPLAY_OUT"), out, 0o644); err != nil {
		t.Fatal(err)
	}
}
