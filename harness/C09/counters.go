package coraza

import (
	"github.com/corazawaf/coraza/v3/internal/vp"
)

func vpAtoiSimple(s string) (int, bool) {
	if len(s) == 0 {
		return 0, false
	}
	neg := false
	i := 0
	if s[0] == '-' {
		neg = true
		i = 1
	}
	if i == len(s) {
		return 0, false
	}
	n := 0
	for ; i < len(s); i++ {
		if s[i] < '0' || s[i] > '9' {
			return 0, false
		}
		n = n*10 + int(s[i]-'0')
	}
	if neg {
		n = -n
	}
	return n, true
}

func vpItoaS(n int) string {
	if n == 0 {
		return "0"
	}
	neg := n < 0
	if neg {
		n = -n
	}
	s := ""
	for n > 0 {
		s = string(rune('0'+n%10)) + s
		n /= 10
	}
	if neg {
		s = "-" + s
	}
	return s
}

// VpC09Counters: anomaly-score style arithmetic.  Two rules add +N1 / subtract N2 per matched
// value, an optional initial assignment, explicit severities: at the end of the phase the
// counter is exactly initial + N1*(values matching rule 1) - N2*(values matching rule 2), and
// HIGHEST_SEVERITY is the minimum explicit severity of the fired rules.
func VpC09Counters() {
	incs := []string{"1", "3", "25"}
	n1 := incs[vp.Choice("n1", 3)]
	n2 := incs[vp.Choice("n2", 3)]
	initial := []string{"", "0", "7", "-4"}[vp.Choice("initial", 4)]
	sev := []string{"", "2", "5", "0"}
	s1 := sev[vp.Choice("sev1", vp.Param("SEVS", 4))]
	s2 := sev[vp.Choice("sev2", vp.Param("SEVS", 4))]
	conf := "SecRuleEngine On\nSecRequestBodyAccess On\n"
	if initial != "" {
		conf += "SecAction \"id:9,phase:1,pass,setvar:tx.s=" + initial + "\"\n"
	}
	a1 := "id:1,phase:2,pass,setvar:tx.s=+" + n1
	if s1 != "" {
		a1 += ",severity:" + s1
	}
	a2 := "id:2,phase:2,pass,setvar:tx.s=-" + n2
	if s2 != "" {
		a2 += ",severity:" + s2
	}
	conf += "SecRule ARGS \"@contains x\" \"" + a1 + "\"\nSecRule ARGS \"@contains y\" \"" + a2 + "\"\n"
	waf := vpBuild("c09:"+n1+":"+n2+":"+initial+":"+s1+":"+s2, conf)
	tx := waf.NewTransaction()
	p := vp.Choice("nargs", vp.Param("ARGS", 3)+1)
	cx, cy := 0, 0
	for i := 0; i < p; i++ {
		c := vp.Byte("value")
		vp.Assume(c == 'x' || c == 'y' || c == 'z')
		tx.AddGetRequestArgument("a"+vpD(i), string([]byte{c}))
		if c == 'x' {
			cx++
		}
		if c == 'y' {
			cy++
		}
	}
	tx.ProcessRequestHeaders()
	_, _ = tx.ProcessRequestBody()
	i0, _ := vpAtoiSimple(initial)
	v1, _ := vpAtoiSimple(n1)
	v2, _ := vpAtoiSimple(n2)
	want := i0 + v1*cx - v2*cy
	got := tx.Variables().TX().Get("s")
	if initial == "" && cx == 0 && cy == 0 {
		vp.Assert(len(got) == 0, "counter created although no rule matched")
	} else {
		vp.Assert(len(got) == 1, "counter missing")
		gi, ok := vpAtoiSimple(got[0]) // concrete on every path; want is a term over the value bytes
		vp.Assert(ok && gi == want, "counter is not initial + N1*matches1 - N2*matches2")
	}
	// severity
	min := 255
	if cx > 0 && s1 != "" {
		v, _ := vpAtoiSimple(s1)
		if v < min {
			min = v
		}
	}
	if cy > 0 && s2 != "" {
		v, _ := vpAtoiSimple(s2)
		if v < min {
			min = v
		}
	}
	hs, hok := vpAtoiSimple(tx.Variables().HighestSeverity().Get())
	vp.Assert(hok && hs == min, "HIGHEST_SEVERITY is not the minimum explicit severity over the fired rules (255 if none)")
	// each fired rule is reported once, with one match datum per matched value
	m1, m2 := 0, 0
	for _, mr := range tx.MatchedRules() {
		switch mr.Rule().ID() {
		case 1:
			m1 += len(mr.MatchedDatas())
		case 2:
			m2 += len(mr.MatchedDatas())
		}
	}
	vp.Assert(m1 == cx && m2 == cy, "number of match data differs from the number of matching values")
	tx.ProcessLogging()
	_ = tx.Close()
	vp.Reached("end")
}

// VpC09Macros: macros in setvar keys and values are expanded against the state at that moment:
// copy, key built from MATCHED_VAR, delete-then-read, rule.id.
func VpC09Macros() {
	conf := "SecRuleEngine On\n" +
		"SecAction \"id:1,phase:1,pass,setvar:tx.b=B1,setvar:tx.a=%{tx.b},setvar:tx.b=B2,setvar:tx.c=%{tx.b}\"\n" +
		"SecRule ARGS \"@rx ^[xy]$\" \"id:2,phase:1,pass,setvar:tx.m_%{matched_var}=+1,setvar:tx.last=%{matched_var_name},setvar:tx.rid=%{rule.id}\"\n" +
		"SecAction \"id:3,phase:1,pass,setvar:tx.d=1,setvar:!tx.d,setvar:tx.e=%{tx.d}\"\n" +
		// deletion through a key built from a macro
		"SecAction \"id:5,phase:1,pass,setvar:tx.kn=x,setvar:tx.k_x=1,setvar:tx.k_y=1,setvar:!tx.k_%{tx.kn}\"\n" +
		// arithmetic with macro operands, including a negative one and a zero
		"SecAction \"id:4,phase:1,pass,setvar:tx.neg=-4,setvar:tx.zero=0,setvar:tx.p=10,setvar:tx.p=+%{tx.neg},setvar:tx.q=10,setvar:tx.q=-%{tx.neg},setvar:tx.r=10,setvar:tx.r=+%{tx.zero},setvar:tx.t=-3,setvar:tx.t=+5,setvar:tx.u=5,setvar:tx.u=%{tx.neg}\"\n"
	waf := vpBuild("c09macros", conf)
	tx := waf.NewTransaction()
	p := vp.Choice("nargs", vp.Param("ARGS", 3)+1)
	cx, cy := 0, 0
	for i := 0; i < p; i++ {
		c := vp.Byte("value")
		vp.Assume(c == 'x' || c == 'y' || c == 'z')
		tx.AddGetRequestArgument("k"+vpD(i), string([]byte{c}))
		if c == 'x' {
			cx++
		}
		if c == 'y' {
			cy++
		}
	}
	tx.ProcessRequestHeaders()
	txc := tx.Variables().TX()
	get := func(k string) string {
		if v := txc.Get(k); len(v) > 0 {
			return v[0]
		}
		return "<unset>"
	}
	vp.Assert(get("a") == "B1", "setvar:tx.a=%{tx.b} did not copy the value tx.b had at that moment")
	vp.Assert(get("c") == "B2", "setvar:tx.c=%{tx.b} did not see the updated tx.b")
	gx, okx := vpAtoiSimple(get("m_x"))
	gy, oky := vpAtoiSimple(get("m_y"))
	vp.Assert((cx > 0) == okx && (cy > 0) == oky && (!okx || gx == cx) && (!oky || gy == cy), "counter keyed by %{matched_var} is not the number of matching values with that content")
	if cx+cy > 0 {
		vp.Assert(get("rid") == "2", "%{rule.id} did not expand to the id of the rule being evaluated")
		vp.Assert(len(get("last")) == 7 && get("last")[:6] == "ARGS:k", "%{matched_var_name} did not expand to the name of the matched variable")
	}
	vp.Assert(get("p") == "6", "setvar:tx.p=+%{tx.neg} with tx.neg=-4 did not add the (negative) value")
	vp.Assert(get("q") == "14", "setvar:tx.q=-%{tx.neg} with tx.neg=-4 did not subtract the (negative) value")
	vp.Assert(get("r") == "10", "setvar:tx.r=+%{tx.zero} changed the counter")
	vp.Assert(get("t") == "2", "+5 on a negative current value is wrong")
	// an assignment stays an assignment whatever the macro expands to
	vp.Assert(get("u") == "-4", "setvar:tx.u=%{tx.neg} with tx.neg=-4 did not assign the value (it was applied as a decrement)")
	vp.Assert(get("d") == "<unset>", "setvar:!tx.d did not delete the variable")
	vp.Assert(get("k_x") == "<unset>" && get("k_y") == "1", "setvar:!tx.k_%{tx.kn} did not delete exactly the variable its expanded key names")
	vp.Assert(get("e") != "1", "macro naming a deleted variable expanded to the stale value")
	tx.ProcessLogging()
	_ = tx.Close()
	vp.Reached("end")
}
