// Object-level harnesses that need several internal packages at once live in the root package.
package coraza

import (
	"github.com/corazawaf/coraza/v3/internal/corazawaf"
	"github.com/corazawaf/coraza/v3/internal/seclang"
	"github.com/corazawaf/coraza/v3/internal/vp"
)

func vpContains(hay, needle string) bool {
	for i := 0; i+len(needle) <= len(hay); i++ {
		if hay[i:i+len(needle)] == needle {
			return true
		}
	}
	return false
}

// VpShake: engine shake-down: one deny rule over ARGS, symbolic argument value.
func VpShake() {
	waf := vp.Setup("waf", func() any {
		waf := corazawaf.NewWAF()
		p := seclang.NewParser(waf)
		if err := p.FromString(`
SecRuleEngine On
SecRule ARGS "@contains ab" "id:1,phase:1,deny,status:403,t:lowercase"
`); err != nil {
			panic(err)
		}
		return waf
	}).(*corazawaf.WAF)
	v := vp.String("v", vp.Param("N", 3))
	for i := 0; i < len(v); i++ {
		vp.Assume(v[i] < 0x80)
	}
	tx := waf.NewTransaction()
	tx.AddGetRequestArgument("q", v)
	it := tx.ProcessRequestHeaders()
	lower := []byte(v)
	for i := range lower {
		if lower[i] >= 'A' && lower[i] <= 'Z' {
			lower[i] += 32
		}
	}
	want := vpContains(string(lower), "ab")
	vp.Assert((it != nil) == want, "interruption iff the lower-cased value contains ab")
	if it != nil {
		vp.Assert(it.RuleID == 1 && it.Status == 403 && it.Action == "deny", "interruption carries the rule's id, status and action")
	}
	tx.ProcessLogging()
	_ = tx.Close()
	vp.Reached("end")
}
