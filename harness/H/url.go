package coraza

import (
	"net/url"

	"github.com/corazawaf/coraza/v3/internal/vp"
)

func VpDevURL() {
	u, err := url.ParseRequestURI("/")
	vp.Assert(err == nil, "parse error")
	vp.Assert(false, "String="+u.String()+" Path="+u.Path+" RawPath="+u.RawPath+" EscapedPath="+u.EscapedPath())
}
