package operators

import (
	"github.com/corazawaf/coraza/v3/collection"
	"github.com/corazawaf/coraza/v3/debuglog"
	"github.com/corazawaf/coraza/v3/experimental/plugins/plugintypes"
	"github.com/corazawaf/coraza/v3/internal/collections"
	"github.com/corazawaf/coraza/v3/types/variables"
)

// vpTx is the smallest TransactionState the operators under test need: capture state, the TX
// collection (for macro expansion) and a logger.  Any other method would dereference the nil
// embedded interface, which the checks would report as a panic.
type vpTx struct {
	plugintypes.TransactionState
	capturing bool
	caps      [10]string
	ncap      int
	capIdx    [12]int
	tx        *collections.Map
}

func (t *vpTx) Capturing() bool { return t.capturing }
func (t *vpTx) CaptureField(i int, v string) {
	if t.ncap < len(t.capIdx) {
		t.capIdx[t.ncap] = i
	}
	t.ncap++
	if i >= 0 && i < 10 {
		t.caps[i] = v
	}
}
func (t *vpTx) Collection(idx variables.RuleVariable) collection.Collection {
	if idx == variables.TX {
		return t.tx
	}
	return collections.Noop
}
func (t *vpTx) DebugLogger() debuglog.Logger { return debuglog.Noop() }

func vpNewTx() *vpTx { return &vpTx{tx: collections.NewMap(variables.TX)} }

func vpContains(hay, needle string) bool {
	for i := 0; i+len(needle) <= len(hay); i++ {
		ok := true
		for j := 0; j < len(needle); j++ {
			if hay[i+j] != needle[j] {
				ok = false
			}
		}
		if ok {
			return true
		}
	}
	return false
}

func vpHasPrefix(s, p string) bool {
	if len(p) > len(s) {
		return false
	}
	for j := 0; j < len(p); j++ {
		if s[j] != p[j] {
			return false
		}
	}
	return true
}

func vpHasSuffix(s, p string) bool {
	if len(p) > len(s) {
		return false
	}
	for j := 0; j < len(p); j++ {
		if s[len(s)-len(p)+j] != p[j] {
			return false
		}
	}
	return true
}

