package operators

import (
	"github.com/corazawaf/coraza/v3/experimental/plugins/plugintypes"
	"github.com/corazawaf/coraza/v3/internal/vp"
)

// patterns exercising every prefilter strategy on inputs of a few bytes: single and multiple
// needles, shared prefixes, case-insensitive and mixed flags, anchors (text and line), exact
// ^literal$ forms with and without groups, optional and repeated groups, classes, empty
// alternatives, word boundaries.
var vpC11Patterns = []string{
	"abc", "(?i)abc", "abc|abd", "ab(c|d)e", "^abc$", "(?i)^abc$", "^abc", "abc$", "a.*bcd", "(abc)+d",
	"(|abc)", "x?abc", "[ab]cd", `abc\d`, "ab+c", "(?i)ab(c|x)d", `\babc\b`, "^(abc)$", "abc.de", "(?i:ab)cd",
	"(abc)(de)?", "^$", "abc|", "(?i)a[bc]d|xyz", `^ab\z`, `\Aabc`, "ab|cd|ef", "(?i)(?:abc|abd|xbc)", "a(bc)*d", "abc|(?i)xyz",
	"(^abc$)", "(?i)(^ab$)", "^a$", "(?s)^abc$", "^abc$|^abd$",
	// mixed case flags with upper-case case-sensitive literals
	"AB(?i:cd)", "(?i:ab)CD", "(?i)ab(?-i:CD)", "(?i:a)BC|xyz",
	// text anchors with something other than the literal next to them
	`\A\dab`, `\Ax.*ab`, `ab\d\z`, `\A(?:ab)?cd`, `\A[ab]cd\z`, `(?i)\A.ab`, `\Aab.*cd\d\z`,
}

type vpCapture struct {
	idx int
	val string
}

type vpRxTx struct {
	plugintypes.TransactionState
	capturing bool
	caps      []vpCapture
}

func (t *vpRxTx) Capturing() bool { return t.capturing }
func (t *vpRxTx) CaptureField(i int, v string) {
	t.caps = append(t.caps, vpCapture{i, v})
}

type vpRxPair struct{ on, off plugintypes.Operator }

// VpC11Prefilter: @rx built with the prefilter on and off must give, for every input, the same
// match result and the same sequence of captured fields.
func VpC11Prefilter() {
	pi := vp.Choice("pattern", vp.Param("PATTERNS", len(vpC11Patterns)))
	pat := vpC11Patterns[pi]
	pair := vp.Setup("c11:"+pat, func() any {
		on, err1 := newRX(plugintypes.OperatorOptions{Arguments: pat, RxPreFilterEnabled: true})
		off, err2 := newRX(plugintypes.OperatorOptions{Arguments: pat, RxPreFilterEnabled: false})
		if err1 != nil || err2 != nil {
			panic("pattern rejected: " + pat)
		}
		return &vpRxPair{on, off}
	}).(*vpRxPair)
	capture := vp.Choice("capture", 2) == 1
	n := vp.Choice("len", vp.Param("N", 4)+1)
	if capture {
		vp.Assume(n <= vp.Param("NCAP", 3))
	}
	s := vp.String("s", n)
	for i := 0; i < len(s); i++ {
		vp.Assume(s[i] < 0x80)
		if capture {
			// submatch positions come from the host regexp on concrete strings: bound the alphabet
			c := s[i]
			vp.Assume(c == 'a' || c == 'b' || c == 'c' || c == 'd' || c == 'A' || c == 'B' || c == 'x' || c == '\n')
		}
	}
	txOn := &vpRxTx{capturing: capture}
	txOff := &vpRxTx{capturing: capture}
	gotOn := pair.on.Evaluate(txOn, s)
	gotOff := pair.off.Evaluate(txOff, s)
	vp.Assert(gotOn == gotOff, "@rx "+pat+": match result differs with the prefilter on")
	if capture {
		vp.Assert(len(txOn.caps) == len(txOff.caps), "@rx "+pat+": number of captured fields differs with the prefilter on")
		for i := 0; i < len(txOn.caps) && i < len(txOff.caps); i++ {
			vp.Assert(txOn.caps[i].idx == txOff.caps[i].idx && txOn.caps[i].val == txOff.caps[i].val, "@rx "+pat+": captured field differs with the prefilter on")
		}
	}
	vp.Observe("match", gotOff)
	// one natively replayed witness per pattern and outcome: validates the regex model
	if gotOff {
		vp.Reached("match:" + pat)
	} else {
		vp.Reached("nomatch:" + pat)
	}
	vp.Reached("end")
}

// VpC11Generated: patterns enumerated from a small grammar instead of a hand-written list:
//   [flags] [^|\A] atom atom[quant] atom [| alt] [$|\z]
// with atoms from {a, B, ., (?i:b), [ab], \d, b} (and an optional fourth atom), quantifiers {none, ?, *, +}, alternatives
// {none, "|ab", "|Ab", "|"}, flags {none, (?i), (?s), (?m)}; symbolic ASCII input.  The match
// result with the prefilter on must equal the one with it off.
func VpC11Generated() {
	atoms := []string{"a", "B", ".", "(?i:b)", "[ab]", `\d`, "b"}
	na := vp.Param("ATOMS", len(atoms))
	a1 := atoms[vp.Choice("atom1", na)]
	a2 := atoms[vp.Choice("atom2", na)]
	a3 := atoms[vp.Choice("atom3", na)]
	// an optional fourth atom, so that a literal of two letters can follow a non-literal atom
	a4 := ""
	if k := vp.Choice("atom4", vp.Param("FOURTH", 0)+1); k > 0 {
		a4 = atoms[k-1]
	}
	q := []string{"", "?", "*", "+"}[vp.Choice("quant", 4)]
	alt := []string{"", "|ab", "|Ab", "|"}[vp.Choice("alt", vp.Param("ALTS", 4))]
	fl := []string{"", "(?i)", "(?s)", "(?m)"}[vp.Choice("flags", vp.Param("FLAGS", 4))]
	anchor := vp.Choice("anchors", vp.Param("ANCHORS", 7))
	pat := a1 + a2 + q + a3 + a4
	switch anchor {
	case 1, 3:
		pat = "^" + pat
	case 4, 6:
		pat = `\A` + pat
	}
	pat += alt
	switch anchor {
	case 2, 3:
		pat += "$"
	case 5, 6:
		pat += `\z`
	}
	pat = fl + pat
	pair := vp.Setup("c11g:"+pat, func() any {
		on, err1 := newRX(plugintypes.OperatorOptions{Arguments: pat, RxPreFilterEnabled: true})
		off, err2 := newRX(plugintypes.OperatorOptions{Arguments: pat, RxPreFilterEnabled: false})
		if err1 != nil || err2 != nil {
			panic("pattern rejected: " + pat)
		}
		return &vpRxPair{on, off}
	}).(*vpRxPair)
	n := vp.Choice("len", vp.Param("N", 3)+1)
	s := vp.String("s", n)
	for i := 0; i < len(s); i++ {
		vp.Assume(s[i] < 0x80)
	}
	txOn := &vpRxTx{}
	txOff := &vpRxTx{}
	gotOn := pair.on.Evaluate(txOn, s)
	gotOff := pair.off.Evaluate(txOff, s)
	vp.Assert(gotOn == gotOff, "@rx "+pat+": match result differs with the prefilter on")
	vp.Observe("match", gotOff)
	vp.Reached("end")
}

// VpC11NonASCII: the regex model used above covers ASCII input only.  Here both the patterns
// (non-ASCII classes and literals, invalid-UTF-8 aware) and the inputs (valid and invalid UTF-8,
// including single bytes >= 0x80 that Go's regexp reads as U+FFFD) are enumerated from pools,
// so the host regexp runs on concrete text: the match result and the captures with the
// prefilter on must equal those with it off.
func VpC11NonASCII() {
	pats := []string{
		`[^\x00-\x7F]`, `id=([^\x00-\x7F]{2})`, `[^[:ascii:]]x`, `\p{So}`, "café", "(?i)CAFÉ", "é+x", `a[^\x00-\x7F]b`,
		"[é�]z", `(?i)\x{212a}elvin`, "é|ab", `^[^\x00-\x7F]+$`,
	}
	ins := []string{
		"\xff", "id=\xe9\xe8", "\xe9x", "☃", "café", "CAFÉ", "cafe", "ééx", "a\xffb", "aéb", "\xefz", "�z",
		"kelvin", "Kelvin", "ab", "\xc3", "\xc3\xa9", "",
	}
	pat := pats[vp.Choice("pattern", len(pats))]
	in := ins[vp.Choice("input", len(ins))]
	pair := vp.Setup("c11n:"+pat, func() any {
		on, err1 := newRX(plugintypes.OperatorOptions{Arguments: pat, RxPreFilterEnabled: true})
		off, err2 := newRX(plugintypes.OperatorOptions{Arguments: pat, RxPreFilterEnabled: false})
		if err1 != nil || err2 != nil {
			panic("pattern rejected: " + pat)
		}
		return &vpRxPair{on, off}
	}).(*vpRxPair)
	capture := vp.Choice("capture", 2) == 1
	txOn := &vpRxTx{capturing: capture}
	txOff := &vpRxTx{capturing: capture}
	gotOn := pair.on.Evaluate(txOn, in)
	gotOff := pair.off.Evaluate(txOff, in)
	vp.Assert(gotOn == gotOff, "@rx "+pat+" on a non-ASCII input: match result differs with the prefilter on")
	vp.Assert(len(txOn.caps) == len(txOff.caps), "@rx "+pat+" on a non-ASCII input: number of captured fields differs with the prefilter on")
	for i := 0; i < len(txOn.caps) && i < len(txOff.caps); i++ {
		vp.Assert(txOn.caps[i].idx == txOff.caps[i].idx && txOn.caps[i].val == txOff.caps[i].val, "@rx "+pat+" on a non-ASCII input: captured field differs with the prefilter on")
	}
	vp.Reached("end")
}
