package operators

import (
	"net"

	"github.com/corazawaf/coraza/v3/experimental/plugins/plugintypes"
	"github.com/corazawaf/coraza/v3/internal/vp"
)

// VpC15IPMatch: "@ipMatch e1,e2" equals CIDR membership computed with net.IPNet directly (the
// trusted base named by the property); a listed bare address stands for that single host.
// Entries and inputs are concrete spellings from pools (address arithmetic is not symbolic).
func VpC15IPMatch() {
	entries := []string{"10.0.0.1", "10.0.0.0/8", "192.168.1.0/24", "::1", "2001:db8::/32", "::ffff:10.0.0.1", "64:ff9b::192.0.2.33", " 10.1.2.3 ", "bogus", "2001:db8::5"}
	inputs := []string{"10.0.0.1", "10.9.9.9", "192.168.1.77", "192.168.2.1", "::1", "::2", "2001:db8::5", "2001:db9::1", "::ffff:10.0.0.1", "::ffff:a00:1", "64:ff9b::c000:221", "64:ff9b::1", "0:0:1::5", "10.1.2.3", "x", ""}
	e1 := entries[vp.Choice("e1", vp.Param("ENTRIES", len(entries)))]
	e2 := entries[vp.Choice("e2", vp.Param("ENTRIES", len(entries)))]
	in := inputs[vp.Choice("input", len(inputs))]
	o, err := Get("ipMatch", plugintypes.OperatorOptions{Arguments: e1 + "," + e2})
	vp.Assert(err == nil, "@ipMatch constructor failed")
	got := o.Evaluate(nil, in)
	ip := net.ParseIP(in)
	want := false
	for _, e := range []string{e1, e2} {
		// reference: trim, a bare address is a single host, an unparsable entry is ignored
		t := e
		for len(t) > 0 && t[0] == ' ' {
			t = t[1:]
		}
		for len(t) > 0 && t[len(t)-1] == ' ' {
			t = t[:len(t)-1]
		}
		if _, n, err := net.ParseCIDR(t); err == nil {
			if ip != nil && n.Contains(ip) {
				want = true
			}
			continue
		}
		if host := net.ParseIP(t); host != nil && ip != nil && host.Equal(ip) {
			want = true
		}
	}
	vp.Assert(got == want, "@ipMatch "+e1+","+e2+" on "+in+" differs from net.IPNet membership")
	vp.Reached("end")
}
