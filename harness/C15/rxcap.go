package operators

import (
	"regexp"

	"github.com/corazawaf/coraza/v3/experimental/plugins/plugintypes"
	"github.com/corazawaf/coraza/v3/internal/vp"
)

// VpC15RxCaptures: @rx with capture over patterns of 0..10 groups: TX.0-TX.9 hold the whole
// match and the first nine groups exactly as Go's regexp reports them (the trusted base); the
// input is a fixed text with one solver-chosen letter, so that optional groups take part or not.
func VpC15RxCaptures() {
	pats := []string{
		"(a)(b)(c)(d)(e)(f)(g)(h)(i)", "(a)(b)(c)(d)(e)(f)(g)(h)(i)(j)", "(a)(b)?(c)(d)(e)(f)(g)(h)(i)?(j)?",
		"abc", "(a)(x)?c?", "(?i)(A)(b)(C)(d)(e)(f)(g)(h)(i)",
	}
	pat := pats[vp.Choice("pattern", len(pats))]
	prefilter := vp.Choice("prefilter", 2) == 1
	op := vp.Setup("rxcap:"+pat+string(rune('0'+vp.Choice("prefilter2", 1)))+map[bool]string{true: "P", false: "N"}[prefilter], func() any {
		o, err := newRX(plugintypes.OperatorOptions{Arguments: pat, RxPreFilterEnabled: prefilter})
		if err != nil {
			panic(err)
		}
		return o
	}).(plugintypes.Operator)
	c := vp.Byte("letter")
	vp.Assume(c == 'b' || c == 'x' || c == 'B')
	in := "a" + string([]byte{c}) + "cdefghij"
	tx := vpNewTx()
	tx.capturing = true
	got := op.Evaluate(tx, in)
	// reference: Go's regexp with the flags @rx documents (dot matches newline, multi-line)
	m := regexp.MustCompile("(?sm)" + pat).FindStringSubmatch(in)
	vp.Assert(got == (m != nil), "@rx "+pat+": match result differs from Go's regexp")
	for i := 0; i < 10; i++ {
		want := ""
		if i < len(m) {
			want = m[i]
		}
		vp.Assert(tx.caps[i] == want, "@rx "+pat+": TX."+string(rune('0'+i))+" does not hold the text of group "+string(rune('0'+i)))
	}
	vp.Reached("end")
}
