package operators

import (
	"regexp"

	"github.com/corazawaf/coraza/v3/experimental/plugins/plugintypes"
	"github.com/corazawaf/coraza/v3/internal/vp"
)

// VpC15RxCaptures: @rx with capture over patterns of 0..10 groups: TX.0-TX.9 hold the whole
// match and the first nine groups exactly as Go's regexp reports them (the trusted base); the
// input is a fixed text with one solver-chosen letter, so that optional groups take part or not.
func VpC15RxCaptures() {
	pats := []string{
		"(a)(b)(c)(d)(e)(f)(g)(h)(i)", "(a)(b)(c)(d)(e)(f)(g)(h)(i)(j)", "(a)(b)?(c)(d)(e)(f)(g)(h)(i)?(j)?",
		"abc", "(a)(x)?c?", "(?i)(A)(b)(C)(d)(e)(f)(g)(h)(i)",
	}
	pat := pats[vp.Choice("pattern", len(pats))]
	prefilter := vp.Choice("prefilter", 2) == 1
	op := vp.Setup("rxcap:"+pat+string(rune('0'+vp.Choice("prefilter2", 1)))+map[bool]string{true: "P", false: "N"}[prefilter], func() any {
		o, err := newRX(plugintypes.OperatorOptions{Arguments: pat, RxPreFilterEnabled: prefilter})
		if err != nil {
			panic(err)
		}
		return o
	}).(plugintypes.Operator)
	c := vp.Byte("letter")
	vp.Assume(c == 'b' || c == 'x' || c == 'B')
	in := "a" + string([]byte{c}) + "cdefghij"
	tx := vpNewTx()
	tx.capturing = true
	got := op.Evaluate(tx, in)
	// reference: Go's regexp with the flags @rx documents (dot matches newline, multi-line)
	m := regexp.MustCompile("(?sm)" + pat).FindStringSubmatch(in)
	vp.Assert(got == (m != nil), "@rx "+pat+": match result differs from Go's regexp")
	for i := 0; i < 10; i++ {
		want := ""
		if i < len(m) {
			want = m[i]
		}
		vp.Assert(tx.caps[i] == want, "@rx "+pat+": TX."+string(rune('0'+i))+" does not hold the text of group "+string(rune('0'+i)))
	}
	vp.Reached("end")
}

// VpC15PmCaptures: @pm and @pmFromDataset with capture over inputs with 8..11 phrase hits: the
// operator matches and TX.0-TX.9 hold the first ten hits in order of appearance (a naive
// leftmost scan over the phrase list is the reference), no more and no fewer.
func VpC15PmCaptures() {
	hits := 8 + vp.Choice("hits", 4)
	sep := []string{"-", "--", ""}[vp.Choice("sep", 3)]
	in := ""
	var want []string
	for i := 0; i < hits; i++ {
		w := "ab"
		if i < 2 || i == hits-1 {
			w = []string{"ab", "Cd"}[vp.Choice("word", 2)] // the first two and the last hit are chosen
		}
		in += sep + w
		want = append(want, w)
	}
	ds := vp.Choice("dataset", 2) == 1
	op := vp.Setup("pmcap:"+map[bool]string{true: "D", false: "P"}[ds], func() any {
		if ds {
			o, err := newPMFromDataset(plugintypes.OperatorOptions{Arguments: "d", Datasets: map[string][]string{"d": {"ab", "cd"}}})
			if err != nil {
				panic(err)
			}
			return o
		}
		o, err := newPM(plugintypes.OperatorOptions{Arguments: "ab cd"})
		if err != nil {
			panic(err)
		}
		return o
	}).(plugintypes.Operator)
	tx := vpNewTx()
	tx.capturing = true
	got := op.Evaluate(tx, in)
	vp.Assert(got, "@pm did not match an input that contains its phrases")
	for i := 0; i < 10; i++ {
		w := ""
		if i < len(want) {
			w = want[i]
		}
		vp.Assert(tx.caps[i] == w, "@pm: TX."+string(rune('0'+i))+" does not hold hit number "+string(rune('0'+i)))
	}
	vp.Reached("end")
}
