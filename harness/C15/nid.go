package operators

import (
	"github.com/corazawaf/coraza/v3/experimental/plugins/plugintypes"
	"github.com/corazawaf/coraza/v3/internal/vp"
)

// VpC07Nid: @validateNid cl|us over matches of 7..LEN characters drawn from a small alphabet
// (digits, the check letter, separators) returns normally for every input, whatever the
// operator then answers.
func VpC07Nid() {
	alphabet := []byte{'-', '1', 'k', '9', '.', 'K', '0'}
	na := vp.Param("ALPHA", 3)
	n := 7 + vp.Choice("len", vp.Param("LEN", 9)-6)
	b := make([]byte, n)
	for i := range b {
		b[i] = alphabet[vp.Choice("ch", na)]
	}
	s := string(b)
	kind := []string{"cl", "us"}[vp.Choice("kind", 2)]
	op := vp.Setup("nid:"+kind, func() any {
		o, err := newValidateNID(plugintypes.OperatorOptions{Arguments: kind + " [0-9kK.\\-]{7,}"})
		if err != nil {
			panic(err)
		}
		return o
	}).(plugintypes.Operator)
	tx := vpNewTx()
	tx.capturing = true
	got := op.Evaluate(tx, s)
	vp.Observe("result", got)
	vp.Reached("end")
}
