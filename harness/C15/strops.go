package operators

import (
	"github.com/corazawaf/coraza/v3/experimental/plugins/plugintypes"
	"github.com/corazawaf/coraza/v3/internal/vp"
)

var vpStrOps = []string{"streq", "contains", "strmatch", "beginsWith", "endsWith", "within"}

func vpStrRef(op, arg, value string) bool {
	switch op {
	case "streq":
		return arg == value
	case "contains", "strmatch":
		return vpContains(value, arg)
	case "beginsWith":
		return vpHasPrefix(value, arg)
	case "endsWith":
		return vpHasSuffix(value, arg)
	case "within":
		return vpContains(arg, value)
	}
	panic("unknown op")
}

// VpC15StrOps: the six string operators with a literal argument (no macro) against naive
// definitions, for every argument of 1..A bytes without '%' and every value of 0..N bytes.
func VpC15StrOps() {
	op := vpStrOps[vp.Choice("op", len(vpStrOps))]
	a := 1 + vp.Choice("alen", vp.Param("A", 2))
	arg := vp.String("arg", a)
	for i := 0; i < len(arg); i++ {
		vp.Assume(arg[i] != '%')
	}
	n := vp.Choice("vlen", vp.Param("N", 3)+1)
	value := vp.String("value", n)
	o, err := Get(op, plugintypes.OperatorOptions{Arguments: arg})
	vp.Assert(err == nil, "operator constructor failed on a literal argument")
	got := o.Evaluate(nil, value)
	vp.Assert(got == vpStrRef(op, arg, value), "@"+op+" differs from its definition")
	vp.Observe("got", got)
	vp.Reached("end")
}

// VpC15StrOpsMacro: the same operators with the argument "<p>%{tx.k}<s>" where TX:k holds
// symbolic bytes: the operator must behave as with the expanded literal.
func VpC15StrOpsMacro() {
	op := vpStrOps[vp.Choice("op", len(vpStrOps))]
	pre := vp.String("pre", vp.Choice("prelen", 2))
	suf := vp.String("suf", vp.Choice("suflen", 2))
	for i := 0; i < len(pre); i++ {
		vp.Assume(pre[i] != '%')
	}
	for i := 0; i < len(suf); i++ {
		vp.Assume(suf[i] != '%')
	}
	tv := vp.String("txval", vp.Choice("txlen", vp.Param("A", 2)+1))
	n := vp.Choice("vlen", vp.Param("N", 3)+1)
	value := vp.String("value", n)
	tx := vpNewTx()
	tx.tx.Set("k", []string{tv})
	o, err := Get(op, plugintypes.OperatorOptions{Arguments: pre + "%{tx.k}" + suf})
	vp.Assert(err == nil, "operator constructor failed on a macro argument")
	got := o.Evaluate(tx, value)
	vp.Assert(got == vpStrRef(op, pre+tv+suf, value), "@"+op+" with a macro argument differs from its definition on the expanded text")
	vp.Reached("end")
}
