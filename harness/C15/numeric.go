package operators

import (
	"github.com/corazawaf/coraza/v3/experimental/plugins/plugintypes"
	"github.com/corazawaf/coraza/v3/internal/vp"
)

// vpAtoiRef: "non-numeric => 0": optional sign followed by at least one digit and nothing else.
func vpAtoiRef(s string) int {
	i := 0
	neg := false
	if i < len(s) && (s[i] == '+' || s[i] == '-') {
		neg = s[i] == '-'
		i++
	}
	if i == len(s) {
		return 0
	}
	n := 0
	for ; i < len(s); i++ {
		c := s[i]
		if c < '0' || c > '9' {
			return 0
		}
		n = n*10 + int(c-'0')
	}
	if neg {
		return -n
	}
	return n
}

var vpNumOps = []string{"eq", "ge", "gt", "le", "lt"}

// VpC15Numeric: @eq @ge @gt @le @lt compare the integer readings (non-numeric => 0) of the
// argument and the value, for every argument of 1..A bytes and value of 0..N bytes.
func VpC15Numeric() {
	op := vpNumOps[vp.Choice("op", len(vpNumOps))]
	arg := vp.String("arg", 1+vp.Choice("alen", vp.Param("A", 2)))
	for i := 0; i < len(arg); i++ {
		vp.Assume(arg[i] != '%')
	}
	value := vp.String("value", vp.Choice("vlen", vp.Param("N", 3)+1))
	o, err := Get(op, plugintypes.OperatorOptions{Arguments: arg})
	vp.Assert(err == nil, "numeric operator constructor failed")
	got := o.Evaluate(nil, value)
	a, v := vpAtoiRef(arg), vpAtoiRef(value)
	var want bool
	switch op {
	case "eq":
		want = v == a
	case "ge":
		want = v >= a
	case "gt":
		want = v > a
	case "le":
		want = v <= a
	case "lt":
		want = v < a
	}
	vp.Assert(got == want, "@"+op+" differs from the integer comparison of its operands")
	vp.Reached("end")
}

func vpItoa(n int) string {
	if n == 0 {
		return "0"
	}
	s := ""
	for n > 0 {
		s = string(rune('0'+n%10)) + s
		n /= 10
	}
	return s
}

// VpC15ValidateByteRange: "@validateByteRange lo-hi,single" matches exactly the inputs that
// contain a byte outside the listed ranges; lo, hi, single are arbitrary bytes.
func VpC15ValidateByteRange() {
	grid := []int{0, 1, 9, 10, 32, 65, 126, 127, 128, 200, 254, 255}
	g := vp.Param("G", 4)
	lo := grid[(vp.Choice("lo", g)*(len(grid)-1))/(g-1)]
	hi := grid[(vp.Choice("hi", g)*(len(grid)-1))/(g-1)]
	single := grid[(vp.Choice("single", g)*(len(grid)-1))/(g-1)]
	arg := vpItoa(lo) + "-" + vpItoa(hi) + ", " + vpItoa(single)
	o, err := Get("validateByteRange", plugintypes.OperatorOptions{Arguments: arg})
	vp.Assert(err == nil, "validateByteRange rejected a well-formed range list")
	value := vp.String("value", vp.Choice("vlen", vp.Param("N", 3)+1))
	got := o.Evaluate(nil, value)
	want := false
	for i := 0; i < len(value); i++ {
		c := int(value[i])
		if !(c >= lo && c <= hi) && c != single {
			want = true
		}
	}
	vp.Assert(got == want, "@validateByteRange differs from the byte-table definition")
	vp.Reached("end")
}

func vpIsHex(c byte) bool {
	return c >= '0' && c <= '9' || c >= 'a' && c <= 'f' || c >= 'A' && c <= 'F'
}

// VpC15ValidateURLEncoding: matches exactly the non-empty inputs that contain a '%' not
// followed by two hexadecimal digits.
func VpC15ValidateURLEncoding() {
	value := vp.String("value", vp.Choice("vlen", vp.Param("N", 4)+1))
	o, err := Get("validateUrlEncoding", plugintypes.OperatorOptions{})
	vp.Assert(err == nil, "constructor failed")
	got := o.Evaluate(nil, value)
	bad := false
	for i := 0; i < len(value); {
		if value[i] != '%' {
			i++
			continue
		}
		if i+2 >= len(value) || !vpIsHex(value[i+1]) || !vpIsHex(value[i+2]) {
			bad = true
			break
		}
		i += 3
	}
	vp.Assert(got == bad, "@validateUrlEncoding differs from its definition")
	vp.Reached("end")
}

// vpUTF8Valid is the UTF-8 well-formedness automaton of RFC 3629 (Unicode table 3-7).
func vpUTF8Valid(s string) bool {
	i := 0
	for i < len(s) {
		c := s[i]
		switch {
		case c < 0x80:
			i++
		case c >= 0xC2 && c <= 0xDF:
			if i+1 >= len(s) || s[i+1] < 0x80 || s[i+1] > 0xBF {
				return false
			}
			i += 2
		case c >= 0xE0 && c <= 0xEF:
			if i+2 >= len(s) {
				return false
			}
			lo, hi := byte(0x80), byte(0xBF)
			if c == 0xE0 {
				lo = 0xA0
			}
			if c == 0xED {
				hi = 0x9F
			}
			if s[i+1] < lo || s[i+1] > hi || s[i+2] < 0x80 || s[i+2] > 0xBF {
				return false
			}
			i += 3
		case c >= 0xF0 && c <= 0xF4:
			if i+3 >= len(s) {
				return false
			}
			lo, hi := byte(0x80), byte(0xBF)
			if c == 0xF0 {
				lo = 0x90
			}
			if c == 0xF4 {
				hi = 0x8F
			}
			if s[i+1] < lo || s[i+1] > hi || s[i+2] < 0x80 || s[i+2] > 0xBF || s[i+3] < 0x80 || s[i+3] > 0xBF {
				return false
			}
			i += 4
		default:
			return false
		}
	}
	return true
}

// VpC15ValidateUTF8: matches exactly the inputs that are not well-formed UTF-8.
func VpC15ValidateUTF8() {
	value := vp.String("value", vp.Choice("vlen", vp.Param("N", 4)+1))
	o, err := Get("validateUtf8Encoding", plugintypes.OperatorOptions{})
	vp.Assert(err == nil, "constructor failed")
	got := o.Evaluate(nil, value)
	vp.Assert(got == !vpUTF8Valid(value), "@validateUtf8Encoding differs from RFC 3629 well-formedness")
	vp.Reached("end")
}

// VpC15Trivial: @unconditionalMatch always matches, @noMatch never does.
func VpC15Trivial() {
	value := vp.String("value", vp.Choice("vlen", vp.Param("N", 4)+1))
	o, err := Get("unconditionalMatch", plugintypes.OperatorOptions{})
	vp.Assert(err == nil && o.Evaluate(nil, value), "@unconditionalMatch did not match")
	o, err = Get("noMatch", plugintypes.OperatorOptions{})
	vp.Assert(err == nil && !o.Evaluate(nil, value), "@noMatch matched")
	vp.Reached("end")
}
