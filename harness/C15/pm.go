package operators

import (
	"github.com/corazawaf/coraza/v3/experimental/plugins/plugintypes"
	"github.com/corazawaf/coraza/v3/internal/vp"
)

func vpFoldASCII(c byte) byte {
	if c >= 'A' && c <= 'Z' {
		return c + 32
	}
	return c
}

// vpContainsFold: ASCII-case-insensitive substring search, written naively.
func vpContainsFold(hay, needle string) bool {
	for i := 0; i+len(needle) <= len(hay); i++ {
		ok := true
		for j := 0; j < len(needle); j++ {
			if vpFoldASCII(hay[i+j]) != vpFoldASCII(needle[j]) {
				ok = false
			}
		}
		if ok {
			return true
		}
	}
	return false
}

// VpC15Pm: "@pm p1 p2" matches exactly the inputs that contain p1 or p2 as an
// ASCII-case-insensitive substring.  The phrases are concrete (enumerated from a pool), the
// input bytes are symbolic.
func VpC15Pm() {
	pool := []string{"ab", "b", "Abc", "\xc3\x89", "ba", "a-", "zz"} // the fourth phrase is "É": no ASCII letter in it
	np := vp.Param("P", 3)
	p1 := pool[vp.Choice("p1", np)]
	p2 := pool[vp.Choice("p2", np)]
	o, _ := vp.Setup("pm:"+p1+" "+p2, func() any {
		o, err := Get("pm", plugintypes.OperatorOptions{Arguments: p1 + " " + p2})
		if err != nil {
			return nil
		}
		return o
	}).(plugintypes.Operator)
	vp.Assert(o != nil, "@pm constructor failed")
	value := vp.String("value", vp.Choice("vlen", vp.Param("N", 3)+1))
	tx := vpNewTx()
	tx.capturing = vp.Choice("capture", 2) == 1
	got := o.Evaluate(tx, value)
	want := vpContainsFold(value, p1) || vpContainsFold(value, p2)
	vp.Assert(got == want, "@pm differs from case-insensitive phrase membership")
	if tx.capturing && got {
		vp.Assert(tx.ncap >= 1 && tx.ncap <= 10, "@pm capture count out of range")
		for i := 0; i < tx.ncap && i < 10; i++ {
			vp.Assert(tx.capIdx[i] == i, "@pm captures not stored in TX.0..9 in order")
			c := tx.caps[i]
			vp.Assert(vpContainsFold(value, c) && (vpEqFold(c, p1) || vpEqFold(c, p2)), "@pm captured text is not a matched phrase of the input")
		}
	}
	if !tx.capturing || !got {
		vp.Assert(tx.ncap == 0, "@pm captured although capture is off or nothing matched")
	}
	vp.Reached("end")
}

func vpEqFold(a, b string) bool {
	if len(a) != len(b) {
		return false
	}
	for i := 0; i < len(a); i++ {
		if vpFoldASCII(a[i]) != vpFoldASCII(b[i]) {
			return false
		}
	}
	return true
}
