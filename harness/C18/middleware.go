package http

import (
	"io"
	"net/http"
	"net/url"

	"github.com/corazawaf/coraza/v3"
	"github.com/corazawaf/coraza/v3/internal/vp"
)

// vpDownstream records what the client would receive.
type vpDownstream struct {
	hdr     http.Header
	status  int
	wrote   bool
	body    []byte
	flushes int
	informational []int
}

func (d *vpDownstream) Header() http.Header { return d.hdr }
func (d *vpDownstream) WriteHeader(code int) {
	if code >= 100 && code < 200 && code != 101 {
		// an informational response: net/http sends it at once and keeps waiting for the final status
		d.informational = append(d.informational, code)
		return
	}
	if !d.wrote {
		d.status = code
		d.wrote = true
	}
}
func (d *vpDownstream) Write(b []byte) (int, error) {
	if !d.wrote {
		d.WriteHeader(200)
	}
	d.body = append(d.body, b...)
	return len(b), nil
}
func (d *vpDownstream) Flush() { d.flushes++ }

type vpBodyReader struct {
	b   []byte
	pos int
}

func (r *vpBodyReader) Read(p []byte) (int, error) {
	if r.pos >= len(r.b) {
		return 0, io.EOF
	}
	n := copy(p, r.b[r.pos:])
	r.pos += n
	return n, nil
}
func (r *vpBodyReader) Close() error { return nil }

func vpDig(n int) string { return string(rune('0' + n)) }

// VpC18Middleware: the net/http middleware around a handler that performs an arbitrary short
// sequence of WriteHeader / Write / Flush / Header().Set operations, with one deny rule in
// phase 1..4 (or none) triggered by solver-chosen request/response content.
func VpC18Middleware() {
	phase := vp.Choice("rulephase", 5) // 0 = no rule
	reqLimit := 2 + vp.Choice("reqlimit", 2)
	// response-body inspection: 0 configured On; 1 configured Off and switched on by a phase-3
	// ctl for this transaction; 2 configured On for another MIME type only (the body is not
	// inspected, so a phase-4 body rule cannot fire and the response passes through)
	resMode := 0
	if phase == 4 {
		resMode = vp.Choice("resmode", 3)
	}
	resConf := "SecResponseBodyAccess On\nSecResponseBodyMimeType text/plain\n"
	switch resMode {
	case 1:
		resConf = "SecResponseBodyAccess Off\nSecResponseBodyMimeType text/plain\n" +
			"SecAction \"id:8,phase:3,pass,nolog,ctl:responseBodyAccess=On\"\n"
	case 2:
		resConf = "SecResponseBodyAccess On\nSecResponseBodyMimeType text/html\n"
	}
	conf := "SecRuleEngine On\nSecRequestBodyAccess On\n" + resConf +
		"SecRequestBodyLimit " + vpDig(reqLimit) + "\nSecRequestBodyLimitAction ProcessPartial\nSecResponseBodyLimit 8\n" +
		"SecAction \"id:9,phase:1,pass,nolog,ctl:requestBodyProcessor=RAW\"\n"
	switch phase {
	case 1:
		conf += "SecRule REQUEST_HEADERS:x-m \"@streq 1\" \"id:1,phase:1,deny,status:401\"\n"
	case 2:
		conf += "SecRule REQUEST_BODY \"@contains x\" \"id:1,phase:2,deny,status:402\"\n"
	case 3:
		conf += "SecRule RESPONSE_HEADERS:x-h \"@streq 1\" \"id:1,phase:3,deny,status:403\"\n"
	case 4:
		conf += "SecRule RESPONSE_BODY \"@contains y\" \"id:1,phase:4,deny,status:404\"\n"
	}
	waf := vp.Setup("c18:"+vpDig(phase)+vpDig(reqLimit)+vpDig(resMode), func() any {
		w, err := coraza.NewWAF(coraza.NewWAFConfig().WithDirectives(conf))
		if err != nil {
			panic(err)
		}
		return w
	}).(coraza.WAF)

	// request
	m := vp.Byte("x-m")
	vp.Assume(m == '0' || m == '1')
	reqBody := vp.Bytes("reqbody", vp.Choice("reqlen", vp.Param("REQ", 3)+1))
	for i := range reqBody {
		vp.Assume(reqBody[i] == 'x' || reqBody[i] == 'a' || reqBody[i] == 'b')
	}
	hdr := http.Header{}
	hdr["X-M"] = []string{string([]byte{m})}
	hdr["Content-Type"] = []string{"text/plain"}
	req := &http.Request{Method: "POST", URL: &url.URL{Path: "/p"}, Proto: "HTTP/1.1", ProtoMajor: 1, ProtoMinor: 1,
		Header: hdr, Host: "h", RemoteAddr: "10.0.0.1:1234"}
	if len(reqBody) > 0 {
		req.Body = &vpBodyReader{b: reqBody}
		// known length, or unknown (chunked / HTTP/2 without content-length: -1 on the server)
		req.ContentLength = []int64{int64(len(reqBody)), -1}[vp.Choice("contentlength", 2)]
	}

	// handler behaviour
	nops := vp.Param("OPS", 2)
	var ops [4]int
	var codes [4]int
	var chunks [4][]byte
	for i := 0; i < nops; i++ {
		ops[i] = vp.Choice("op", 5) // 0 nothing, 1 WriteHeader(code), 2 Write(chunk), 3 Flush, 4 Header().Set("X-H", v)
		if ops[i] == 1 {
			codes[i] = []int{201, 204, 304, 103}[vp.Choice("code", vp.Param("CODES", 4))]
		}
		if ops[i] == 2 {
			chunks[i] = vp.Bytes("chunk", 1+vp.Choice("chunklen", 2))
			for j := range chunks[i] {
				vp.Assume(chunks[i][j] == 'y' || chunks[i][j] == 'c' || chunks[i][j] == 'd')
			}
		}
	}
	for i := 0; i < nops; i++ {
		if ops[i] == 1 && (codes[i] == 204 || codes[i] == 304) {
			// a response that cannot carry a body: handlers that write one get an error from net/http
			for j := 0; j < nops; j++ {
				vp.Assume(ops[j] != 2)
			}
		}
	}
	xh := vp.Byte("x-h")
	vp.Assume(xh == '0' || xh == '1')
	invoked := false
	var seenBody []byte
	wantStatus := 200
	statusSet := false
	var wantBody []byte
	headerSet := false
	wantInfo := 0
	handler := http.HandlerFunc(func(w http.ResponseWriter, r *http.Request) {
		invoked = true
		if r.Body != nil {
			seenBody, _ = io.ReadAll(r.Body)
		}
		w.Header().Set("Content-Type", "text/plain")
		for i := 0; i < nops; i++ {
			switch ops[i] {
			case 1:
				if codes[i] == 103 {
					// informational: the final status is still to come (after it, the call is
					// superfluous and net/http ignores it)
					if !statusSet {
						wantInfo++
					}
				} else if !statusSet {
					wantStatus, statusSet = codes[i], true
				}
				w.WriteHeader(codes[i])
			case 2:
				if !statusSet {
					statusSet = true
				}
				wantBody = append(wantBody, chunks[i]...)
				_, _ = w.Write(chunks[i])
			case 3:
				if !statusSet {
					statusSet = true
				}
				if f, ok := w.(http.Flusher); ok {
					f.Flush()
				}
			case 4:
				if !statusSet {
					headerSet = true
					w.Header().Set("X-H", string([]byte{xh}))
				}
			}
		}
	})
	down := &vpDownstream{hdr: http.Header{}}
	WrapHandler(waf, handler).ServeHTTP(down, req)
	if !down.wrote {
		down.WriteHeader(200) // net/http sends 200 when the handler returns without a final status
	}

	// ---- reference ------------------------------------------------------------------------
	inspected := reqBody
	if len(inspected) > reqLimit {
		inspected = inspected[:reqLimit]
	}
	hasX := false
	for _, c := range inspected {
		if c == 'x' {
			hasX = true
		}
	}
	hasY := false
	for _, c := range wantBody {
		if c == 'y' {
			hasY = true
		}
	}
	switch {
	case phase == 1 && m == '1':
		vp.Assert(!invoked, "request interrupted in phase 1 reached the handler")
		vp.Assert(down.status == 401 && len(down.body) == 0, "phase-1 interruption: client did not get the interruption status with an empty body")
	case phase == 2 && hasX:
		vp.Assert(!invoked, "request interrupted in phase 2 reached the handler")
		vp.Assert(down.status == 402 && len(down.body) == 0, "phase-2 interruption: client did not get the interruption status with an empty body")
	case phase == 3 && headerSet && xh == '1' && statusSet:
		// (a handler that sets headers but never calls WriteHeader, Write or Flush does not trigger
		// the response phases at all: the property says nothing about that case, see DESIGN.md)
		vp.Assert(invoked, "handler not invoked although the request was clean")
		vp.Assert(len(down.body) == 0, "response interrupted in phase 3 delivered handler body bytes")
		vp.Assert(down.status == 403, "phase-3 interruption: client did not get the interruption status")
	case phase == 4 && hasY && resMode != 2:
		vp.Assert(invoked, "handler not invoked although the request was clean")
		vp.Assert(len(down.body) == 0, "response interrupted in phase 4 delivered handler body bytes")
		vp.Assert(down.status == 404, "phase-4 interruption: client did not get the interruption status")
	default:
		vp.Assert(invoked, "handler not invoked although nothing interrupted")
		vp.Assert(string(seenBody) == string(reqBody), "handler did not read exactly the client's request body")
		vp.Assert(down.status == wantStatus, "client did not receive the handler's status")
		vp.Assert(len(down.informational) == wantInfo, "client did not receive the handler's informational responses")
		vp.Assert(string(down.body) == string(wantBody), "client did not receive exactly the handler's body")
		if headerSet {
			vp.Assert(len(down.hdr["X-H"]) == 1 && down.hdr["X-H"][0] == string([]byte{xh}), "client did not receive the handler's header")
		}
	}
	vp.Reached("end")
}
