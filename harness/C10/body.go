package coraza

import (
	"bytes"
	"io"

	"github.com/corazawaf/coraza/v3/internal/corazawaf"
	"github.com/corazawaf/coraza/v3/internal/seclang"
	"github.com/corazawaf/coraza/v3/internal/vp"
	"github.com/corazawaf/coraza/v3/types"
)

// vpPlainReader is an io.Reader without Len(): the "unknown length" entry point.
type vpPlainReader struct {
	b   []byte
	pos int
}

func (r *vpPlainReader) Read(p []byte) (int, error) {
	if r.pos >= len(r.b) {
		return 0, io.EOF
	}
	n := copy(p, r.b[r.pos:])
	r.pos += n
	return n, nil
}

func vpItoa10(n int) string {
	if n == 0 {
		return "0"
	}
	s := ""
	for n > 0 {
		s = string(rune('0'+n%10)) + s
		n /= 10
	}
	return s
}

func vpC10WAF(L, M int, action string) *corazawaf.WAF {
	return vp.Setup("c10:"+vpItoa10(L)+":"+vpItoa10(M)+action, func() any {
		waf := corazawaf.NewWAF()
		p := seclang.NewParser(waf)
		if err := p.FromString(`
SecRuleEngine On
SecRequestBodyAccess On
SecResponseBodyAccess On
SecResponseBodyMimeType text/plain
SecRequestBodyLimit ` + vpItoa10(L) + `
SecRequestBodyInMemoryLimit ` + vpItoa10(M) + `
SecResponseBodyLimit ` + vpItoa10(L) + `
SecRequestBodyLimitAction ` + action + `
SecResponseBodyLimitAction ` + action + `
SecAction "id:1,phase:1,pass,ctl:requestBodyProcessor=RAW"
SecAction "id:2,phase:2,pass,setvar:tx.p2=+1"
SecAction "id:4,phase:4,pass,setvar:tx.p4=+1"
`); err != nil {
			panic(err)
		}
		return waf
	}).(*corazawaf.WAF)
}

// VpC10Request: request bodies in any chunking through any entry point: what is stored, read
// back and exposed as REQUEST_BODY is exactly the supplied prefix allowed by the limit, the same
// for memory and spilled buffers; Reject refuses exactly when the cumulative size reaches the
// limit; the body phase runs once.
func VpC10Request() {
	L := 1 + vp.Choice("L", vp.Param("LMAX", 3))
	M := 1 + vp.Choice("M", L)
	reject := vp.Choice("reject", 2) == 1
	action := "ProcessPartial"
	if reject {
		action = "Reject"
	}
	waf := vpC10WAF(L, M, action)
	waf.TmpDir = vp.TempDir()
	T := vp.Param("T", 4)
	body := vp.Bytes("body", T)
	tx := waf.NewTransaction()
	tx.AddRequestHeader("Host", "h")
	it := tx.ProcessRequestHeaders()
	vp.Assert(it == nil, "unexpected interruption in phase 1")

	var stored []byte // oracle: what must be buffered
	off := 0
	refused := false
	nchunks := vp.Param("CHUNKS", 2)
	for c := 0; c < nchunks && !refused; c++ {
		n := vp.Choice("chunklen", T-off+1)
		chunk := body[off : off+n]
		off += n
		kind := vp.Choice("kind", 3)
		var (
			gotIt *types.Interruption
			gotN  int
			err   error
		)
		switch kind {
		case 0:
			gotIt, gotN, err = tx.WriteRequestBody(chunk)
		case 1:
			gotIt, gotN, err = tx.ReadRequestBodyFrom(bytes.NewReader(chunk))
		default:
			gotIt, gotN, err = tx.ReadRequestBodyFrom(&vpPlainReader{b: chunk})
		}
		vp.Assert(err == nil, "body write returned an error without any fault")
		before := len(stored)
		reaches := before+len(chunk) >= L
		switch {
		case before >= L:
			// limit already reached by earlier bytes: nothing more is taken
			vp.Assert(gotN == 0, "bytes accepted although the limit had been reached")
		case reject && reaches && len(chunk) > 0:
			vp.Assert(gotIt != nil && gotIt.Status == 413, "Reject: no 413 when the cumulative size reaches the limit")
			_ = gotN
			refused = true
		default:
			want := len(chunk)
			if before+want > L {
				want = L - before
			}
			vp.Assert(gotIt == nil, "interruption although the limit was not reached or the action is ProcessPartial")
			vp.Assert(gotN == want, "number of bytes accepted differs from min(chunk, limit - buffered)")
			stored = append(stored, chunk[:want]...)
		}
	}
	if !refused {
		it, err := tx.ProcessRequestBody()
		vp.Assert(err == nil && it == nil, "ProcessRequestBody failed or interrupted")
	}
	// read back
	r, err := tx.RequestBodyReader()
	vp.Assert(err == nil, "RequestBodyReader failed")
	back, err := io.ReadAll(r)
	vp.Assert(err == nil, "reading the buffered body failed")
	if refused {
		// a refused body may keep bytes up to the limit, never beyond it, and only supplied ones
		vp.Assert(len(back) >= len(stored) && len(back) <= L, "Reject: stored size outside [accepted, limit]")
		vp.Assert(string(back) == string(body[:len(back)]), "Reject: stored bytes are not a prefix of the supplied bytes")
	} else {
		vp.Assert(string(back) == string(stored), "bytes read back differ from the bytes supplied (truncated at the limit)")
	}
	if !refused {
		vp.Assert(len(stored) == 0 || tx.Variables().RequestBody().Get() == string(stored), "REQUEST_BODY differs from the stored bytes")
		p2 := tx.Variables().TX().Get("p2")
		vp.Assert(len(p2) == 1 && p2[0] == "1", "request body phase did not run exactly once")
	}
	vp.Observe("stored", stored)
	tx.ProcessLogging()
	vp.Assert(tx.Close() == nil, "Close failed")
	vp.Assert(vp.LiveFiles() == 0, "temporary body file left behind after Close")
	vp.Reached("end")
}

// VpC10Response: the same for response bodies (memory only).
func VpC10Response() {
	L := 1 + vp.Choice("L", vp.Param("LMAX", 3))
	reject := vp.Choice("reject", 2) == 1
	action := "ProcessPartial"
	if reject {
		action = "Reject"
	}
	waf := vpC10WAF(L, L, action)
	waf.TmpDir = vp.TempDir()
	T := vp.Param("T", 4)
	body := vp.Bytes("body", T)
	tx := waf.NewTransaction()
	tx.AddRequestHeader("Host", "h")
	tx.ProcessRequestHeaders()
	_, _ = tx.ProcessRequestBody()
	tx.AddResponseHeader("Content-Type", "text/plain")
	it := tx.ProcessResponseHeaders(200, "HTTP/1.1")
	vp.Assert(it == nil, "unexpected interruption in phase 3")
	var stored []byte
	off := 0
	refused := false
	nchunks := vp.Param("CHUNKS", 2)
	for c := 0; c < nchunks && !refused; c++ {
		n := vp.Choice("chunklen", T-off+1)
		chunk := body[off : off+n]
		off += n
		kind := vp.Choice("kind", 3)
		var (
			gotIt *types.Interruption
			gotN  int
			err   error
		)
		switch kind {
		case 0:
			gotIt, gotN, err = tx.WriteResponseBody(chunk)
		case 1:
			gotIt, gotN, err = tx.ReadResponseBodyFrom(bytes.NewReader(chunk))
		default:
			gotIt, gotN, err = tx.ReadResponseBodyFrom(&vpPlainReader{b: chunk})
		}
		vp.Assert(err == nil, "body write returned an error without any fault")
		before := len(stored)
		reaches := before+len(chunk) >= L
		switch {
		case before >= L:
			vp.Assert(gotN == 0, "bytes accepted although the limit had been reached")
		case reject && reaches && len(chunk) > 0:
			vp.Assert(gotIt != nil && gotIt.Status == 500, "Reject: no 500 when the cumulative size reaches the limit")
			_ = gotN
			refused = true
		default:
			want := len(chunk)
			if before+want > L {
				want = L - before
			}
			vp.Assert(gotIt == nil, "interruption although the limit was not reached or the action is ProcessPartial")
			vp.Assert(gotN == want, "number of bytes accepted differs from min(chunk, limit - buffered)")
			stored = append(stored, chunk[:want]...)
		}
	}
	if !refused {
		it, err := tx.ProcessResponseBody()
		vp.Assert(err == nil && it == nil, "ProcessResponseBody failed or interrupted")
	}
	r, err := tx.ResponseBodyReader()
	vp.Assert(err == nil, "ResponseBodyReader failed")
	back, err := io.ReadAll(r)
	vp.Assert(err == nil, "reading the buffered body failed")
	if refused {
		vp.Assert(len(back) >= len(stored) && len(back) <= L, "Reject: stored size outside [accepted, limit]")
		vp.Assert(string(back) == string(body[:len(back)]), "Reject: stored bytes are not a prefix of the supplied bytes")
	} else {
		vp.Assert(string(back) == string(stored), "bytes read back differ from the bytes supplied (truncated at the limit)")
	}
	if !refused {
		vp.Assert(tx.Variables().ResponseBody().Get() == string(stored), "RESPONSE_BODY differs from the stored bytes")
		p4 := tx.Variables().TX().Get("p4")
		vp.Assert(len(p4) == 1 && p4[0] == "1", "response body phase did not run exactly once")
	}
	tx.ProcessLogging()
	vp.Assert(tx.Close() == nil, "Close failed")
	vp.Reached("end")
}
