package coraza

import (
	"io"
	"strings"

	"github.com/corazawaf/coraza/v3/debuglog"
	"github.com/corazawaf/coraza/v3/internal/corazawaf"
	"github.com/corazawaf/coraza/v3/internal/seclang"
	"github.com/corazawaf/coraza/v3/internal/vp"
	"github.com/corazawaf/coraza/v3/types"
)

// VpC20Uploads: a multipart request with 0..FILES uploaded files (and one plain field), the body
// held in memory, upload storage on the file model with at most FAULTS failing calls (create,
// write, close, remove - chosen by the solver), every keep-files mode, the connector abandoning
// after any API call: no panic; an injected failure is visible (returned error, error variable
// MULTIPART_STRICT_ERROR / REQBODY_ERROR, or error log entry); after Close no temporary file
// remains unless retention is configured or Close reported the failed removal.
func VpC20Uploads() {
	keep := vp.Choice("keep", 3) // 0 Off, 1 On, 2 RelevantOnly
	conf := "SecRuleEngine On\nSecRequestBodyAccess On\nSecRequestBodyLimit 4096\n" +
		"SecRule FILES \"@vpsee 0\" \"id:2,phase:2,pass,log\"\n"
	waf := vp.Setup("c20up", func() any {
		waf := corazawaf.NewWAF()
		p := seclang.NewParser(waf)
		if err := p.FromString(conf); err != nil {
			panic(err)
		}
		return waf
	}).(*corazawaf.WAF)
	waf.TmpDir = vp.TempDir()
	waf.UploadDir = vp.TempDir()
	switch keep {
	case 0:
		waf.UploadKeepFiles = types.UploadKeepFilesOff
	case 1:
		waf.UploadKeepFiles = types.UploadKeepFilesOn
	default:
		waf.UploadKeepFiles = types.UploadKeepFilesRelevantOnly
	}
	vpErrLogs = 0
	waf.Logger = debuglog.DefaultWithPrinterFactory(func(io.Writer) debuglog.Printer {
		return func(lvl debuglog.Level, message, fields string) {
			if lvl == debuglog.LevelError {
				vpErrLogs++
			}
		}
	})
	vpSeeReset()
	vpSeeMatch[0] = true // the FILES rule fires (and logs) for every uploaded file

	files := vp.Choice("files", vp.Param("FILES", 2)+1)
	var sb strings.Builder
	sb.WriteString("--B\r\nContent-Disposition: form-data; name=\"t\"\r\n\r\nv\r\n")
	for i := 0; i < files; i++ {
		sb.WriteString("--B\r\nContent-Disposition: form-data; name=\"f" + string(rune('0'+i)) + "\"; filename=\"n" + string(rune('0'+i)) + ".txt\"\r\n" +
			"Content-Type: text/plain\r\n\r\ndata" + string(rune('0'+i)) + "\r\n")
	}
	sb.WriteString("--B--\r\n")
	body := sb.String()

	cut := vp.Choice("cut", 4)
	visible := 0
	tx := waf.NewTransaction()
	tx.AddRequestHeader("Host", "h")
	tx.AddRequestHeader("Content-Type", "multipart/form-data; boundary=B")
	tx.ProcessRequestHeaders()
	if cut >= 1 {
		_, n, err := tx.WriteRequestBody([]byte(body))
		vp.Assert(err == nil && n == len(body), "in-memory body write failed")
	}
	vp.FaultInjection(vp.Param("FAULTS", 1))
	if cut >= 2 {
		_, err := tx.ProcessRequestBody()
		if err != nil {
			visible++
			vp.Assert(vp.Faults() > 0, "ProcessRequestBody failed without an injected fault: "+err.Error())
		}
		if vp.Faults() == 0 {
			vp.Assert(tx.Variables().RequestBodyError().Get() != "1", "REQBODY_ERROR set without an injected fault: "+tx.Variables().RequestBodyErrorMsg().Get())
		}
		if tx.Variables().RequestBodyError().Get() == "1" || tx.Variables().MultipartStrictError().Get() == "1" {
			visible++
		}
		if vp.Faults() == 0 {
			vp.Assert(len(vpSeen[0]) == files, "FILES does not list every uploaded file")
			vp.Assert(vp.LiveFiles() == files, "number of stored upload files differs from the number of uploads")
		}
	}
	if cut >= 3 {
		tx.ProcessLogging()
	}
	errClose := tx.Close()
	if errClose != nil {
		visible++
	}
	injected := vp.Faults()
	vp.Assert(injected == 0 || visible+vpErrLogs > 0, "an upload-storage failure was swallowed: no returned error, no error variable, no error log entry")
	retained := keep == 1 || (keep == 2 && cut >= 2 && files > 0 && injected == 0)
	if !retained && keep != 2 {
		vp.Assert(vp.LiveFiles() == 0 || vp.FaultedOn("remove"), "an upload temporary file remains after Close although retention is off and its removal did not fail")
	}
	if keep == 1 && injected == 0 && cut >= 2 {
		vp.Assert(vp.LiveFiles() == files, "SecUploadKeepFiles On did not retain the uploaded files")
	}
	if keep == 2 && injected == 0 && cut >= 2 {
		// the FILES rule logs, so the transaction is relevant exactly when there was a file
		vp.Assert(vp.LiveFiles() == files, "SecUploadKeepFiles RelevantOnly did not follow the relevance of the transaction")
	}
	vp.Observe("live", vp.LiveFiles())
	vp.Reached("end")
}
