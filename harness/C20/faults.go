package coraza

import (
	"io"

	"github.com/corazawaf/coraza/v3/debuglog"
	"github.com/corazawaf/coraza/v3/internal/corazawaf"
	"github.com/corazawaf/coraza/v3/internal/seclang"
	"github.com/corazawaf/coraza/v3/internal/vp"
)

// VpC20Faults: a transaction whose request body spills to a temporary file, with up to two
// file-system calls failing (create, write, read, close, remove - chosen by the solver), an
// audit writer that may fail, and the connector abandoning the transaction after any API call:
// no panic; every injected failure is visible as a returned error, an error variable or an
// error-level log entry; a body whose storing failed is not reported as inspected; after Close
// no temporary file remains unless Close reported the failed removal; the recycled transaction
// works normally.
func VpC20Faults() {
	conf := "SecRuleEngine On\nSecRequestBodyAccess On\nSecRequestBodyLimit 16\nSecRequestBodyInMemoryLimit 2\n" +
		"SecAuditEngine On\nSecAuditLogParts ABCZ\n" +
		"SecAction \"id:1,phase:1,pass,nolog,ctl:requestBodyProcessor=RAW\"\n" +
		"SecRule REQUEST_BODY \"@vpsee 0\" \"id:2,phase:2,pass,nolog\"\n"
	waf := vp.Setup("c20", func() any {
		waf := corazawaf.NewWAF()
		p := seclang.NewParser(waf)
		if err := p.FromString(conf); err != nil {
			panic(err)
		}
		return waf
	}).(*corazawaf.WAF)
	waf.TmpDir = vp.TempDir()
	vpErrLogs = 0
	waf.Logger = debuglog.DefaultWithPrinterFactory(func(io.Writer) debuglog.Printer {
		return func(lvl debuglog.Level, message, fields string) {
			if lvl == debuglog.LevelError {
				vpErrLogs++
			}
		}
	})
	aw := &vpFailingWriter{fail: vp.Choice("auditfail", 2) == 1}
	waf.SetAuditLogWriter(aw)
	vp.FaultInjection(vp.Param("FAULTS", 1))
	vpSeeReset()

	body := []byte("abcdef")
	cut := vp.Choice("cut", 5) // abandon after this many steps
	visible := 0               // failures surfaced as returned errors
	tx := waf.NewTransaction()
	tx.AddRequestHeader("Host", "h")
	tx.ProcessRequestHeaders()
	stored := true
	if cut >= 1 {
		_, n1, err := tx.WriteRequestBody(body[:3]) // crosses the in-memory limit: create + write
		if err != nil {
			visible++
			stored = false
		} else if n1 != 3 {
			stored = false
		}
	}
	if cut >= 2 && stored {
		_, n2, err := tx.WriteRequestBody(body[3:]) // write to the spill file
		if err != nil {
			visible++
			stored = false
		} else if n2 != 3 {
			stored = false
		}
	}
	if cut >= 3 {
		_, err := tx.ProcessRequestBody() // reads the buffer back
		if err != nil {
			visible++
		}
		if rb := tx.Variables().RequestBody().Get(); rb != "" {
			// whatever is reported as the inspected body must be bytes that were supplied, in order
			vp.Assert(len(rb) <= 6 && rb == string(body[:len(rb)]), "REQUEST_BODY holds bytes that were not supplied")
			if !stored {
				vp.Assert(rb != string(body), "a body whose storing failed is reported as fully inspected")
			}
		}
		if tx.Variables().RequestBodyError().Get() == "1" {
			visible++
		}
	}
	if cut >= 4 {
		tx.ProcessLogging()
		vp.Assert(aw.writes == 1, "audit writer not invoked exactly once")
	}
	errClose := tx.Close()
	if errClose != nil {
		visible++
	}
	injected := vp.Faults()
	if aw.fail && cut >= 4 {
		injected++
	}
	vp.Assert(injected == 0 || visible+vpErrLogs > 0, "a file-system or audit failure was swallowed: no returned error, no error variable, no error log entry")
	vp.Assert(vp.LiveFiles() == 0 || vp.FaultedOn("remove"), "a temporary file remains after Close although its removal did not fail")

	// the recycled object works normally (no faults from here on)
	vp.FaultInjection(0)
	vpSeeReset()
	tx2 := waf.NewTransaction()
	tx2.AddRequestHeader("Host", "h")
	tx2.ProcessRequestHeaders()
	_, n, err := tx2.WriteRequestBody([]byte("xyz1"))
	vp.Assert(err == nil && n == 4, "recycled transaction cannot buffer a body")
	_, err = tx2.ProcessRequestBody()
	vp.Assert(err == nil, "recycled transaction cannot process a body")
	vp.Assert(tx2.Variables().RequestBody().Get() == "xyz1", "recycled transaction exposes a wrong REQUEST_BODY")
	vp.Assert(len(vpSeen[0]) == 1 && vpSeen[0][0] == "xyz1", "recycled transaction did not evaluate its body rule on its own body")
	tx2.ProcessLogging()
	vp.Assert(tx2.Close() == nil, "Close of the recycled transaction failed")
	vp.Reached("end")
}
