package coraza

import (
	"io"

	"github.com/corazawaf/coraza/v3/experimental/plugins/plugintypes"
)

var vpErrLogs int

// audit writer that may fail
type vpFailingWriter struct {
	fail   bool
	writes int
}

func (w *vpFailingWriter) Init(plugintypes.AuditLogConfig) error { return nil }
func (w *vpFailingWriter) Write(plugintypes.AuditLog) error {
	w.writes++
	if w.fail {
		return io.ErrUnexpectedEOF
	}
	return nil
}
func (w *vpFailingWriter) Close() error { return nil }

