package coraza

import (
	"io"

	"github.com/corazawaf/coraza/v3/debuglog"
	"github.com/corazawaf/coraza/v3/internal/vp"
)

// VpC20AuditFile: the serial audit writer on a file of the engine's file model, with the
// open and the write of the record failing or not (solver-chosen): a failed write of the audit
// record surfaces as an error-level log entry (or the construction of the WAF fails); it is
// never lost without a trace.
func VpC20AuditFile() {
	vp.FaultInjection(vp.Param("FAULTS", 1))
	vpErrLogs = 0
	conf := NewWAFConfig().WithDirectives("SecRuleEngine On\nSecAuditEngine On\nSecAuditLogParts ABHZ\nSecAuditLogFormat native\nSecAuditLogType Serial\n" +
		"SecAuditLog " + vp.TempDir() + "/audit.log\n" +
		"SecRule ARGS \"@rx x\" \"id:1,phase:1,pass,log,auditlog,msg:'m'\"\n").
		WithDebugLogger(debuglog.DefaultWithPrinterFactory(func(io.Writer) debuglog.Printer {
			return func(lvl debuglog.Level, message, fields string) {
				if lvl == debuglog.LevelError {
					vpErrLogs++
				}
			}
		}))
	waf, err := NewWAF(conf)
	if err != nil {
		vp.Assert(vp.Faults() > 0, "WAF construction failed without an injected fault: "+err.Error())
		vp.Reached("end")
		return
	}
	before := vp.Faults()
	tx := waf.NewTransaction()
	tx.ProcessURI("/?a=x", "GET", "HTTP/1.1")
	tx.ProcessRequestHeaders()
	tx.ProcessLogging()
	errClose := tx.Close()
	if vp.Faults() > before {
		vp.Assert(vpErrLogs > 0 || errClose != nil, "the write of the audit record failed and nothing reports it (no error log entry, no returned error)")
	}
	vp.Reached("end")
}
