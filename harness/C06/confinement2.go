package coraza

import (
	"github.com/corazawaf/coraza/v3/internal/vp"
)

// VpC06Confinement2: the same write-effect confinement check over a second rule set that goes
// through the rest of the vocabulary: every transformation, the remaining operators (address
// and data-set matching, REST paths, validators, libinjection, numeric and string operators
// with macro arguments), the remaining actions (setenv, expirevar, initcol, ctl by tag / by
// message / body processor, logdata and msg macros, severity, block with default actions,
// allow, drop in DetectionOnly) and the JSON body processor.
func VpC06Confinement2() {
	conf := "SecRuleEngine On\nSecRequestBodyAccess On\nSecResponseBodyAccess On\nSecResponseBodyMimeType text/plain\nSecAuditEngine On\nSecAuditLogParts ABCEFHJKZ\n" +
		"SecDefaultAction \"phase:2,log,auditlog,deny,status:403\"\n" +
		"SecDataset ds `\naa\nbb\n`\n" +
		"SecAction \"id:1,phase:1,pass,nolog,initcol:ip=%{remote_addr},setvar:tx.lim=5,setvar:tx.pre=a,ctl:ruleRemoveByTag=gone,ctl:ruleRemoveByMsg=gonemsg,ctl:ruleRemoveTargetByMsg=mm;ARGS:x\"\n" +
		"SecRule REQUEST_HEADERS:Content-Type \"@beginsWith application/json\" \"id:2,phase:1,pass,nolog,ctl:requestBodyProcessor=JSON\"\n" +
		"SecRule ARGS \"@vpsee 0\" \"id:10,phase:2,pass,msg:'mm %{matched_var}',logdata:'%{matched_var_name}',severity:3,tag:'t1',tag:'t2'," +
		"t:base64Decode,t:base64DecodeExt,t:base64Encode,t:cmdLine,t:compressWhitespace,t:cssDecode,t:escapeSeqDecode,t:hexDecode,t:hexEncode,t:htmlEntityDecode,t:jsDecode,t:lowercase,t:normalisePath,t:normalisePathWin,t:removeComments,t:removeCommentsChar,t:removeNulls,t:removeWhitespace,t:replaceComments,t:replaceNulls,t:trim,t:trimLeft,t:trimRight,t:uppercase,t:urlDecode,t:urlDecodeUni,t:urlEncode,t:utf8toUnicode,t:md5,t:sha1,t:length\"\n" +
		"SecRule REMOTE_ADDR \"@ipMatch 10.0.0.0/8,192.168.1.1\" \"id:11,phase:2,pass,setenv:seen=%{remote_addr},expirevar:tx.a=10\"\n" +
		"SecRule ARGS \"@pmFromDataset ds\" \"id:12,phase:2,pass,capture\"\n" +
		"SecRule REQUEST_FILENAME \"@restpath /p/{id}\" \"id:13,phase:2,pass\"\n" +
		"SecRule ARGS \"@validateNid us \\d{9}\" \"id:14,phase:2,pass,capture\"\n" +
		"SecRule ARGS \"@validateByteRange 32-126\" \"id:15,phase:2,pass\"\n" +
		"SecRule ARGS \"@validateUrlEncoding\" \"id:16,phase:2,pass\"\n" +
		"SecRule ARGS \"@validateUtf8Encoding\" \"id:17,phase:2,pass\"\n" +
		"SecRule ARGS \"@detectSQLi\" \"id:18,phase:2,pass,capture\"\n" +
		"SecRule ARGS \"@detectXSS\" \"id:19,phase:2,pass,capture\"\n" +
		"SecRule &ARGS \"@ge %{tx.lim}\" \"id:20,phase:2,pass\"\n" +
		"SecRule ARGS \"@beginsWith %{tx.pre}\" \"id:21,phase:2,pass\"\n" +
		"SecRule ARGS \"@within aa,bb,%{tx.pre}\" \"id:22,phase:2,pass\"\n" +
		"SecRule ARGS \"@strmatch a\" \"id:23,phase:2,pass\"\n" +
		"SecRule ARGS \"@endsWith %{tx.pre}\" \"id:24,phase:2,pass,tag:'gone'\"\n" +
		"SecRule ARGS \"@contains zz\" \"id:25,phase:2,pass,msg:'gonemsg'\"\n" +
		"SecRule REQUEST_HEADERS:x \"@streq 1\" \"id:26,phase:2,pass,ctl:ruleEngine=DetectionOnly\"\n" +
		"SecRule REQUEST_HEADERS:x \"@streq 2\" \"id:27,phase:2,allow:phase\"\n" +
		"SecRule ARGS \"@vpsee 1\" \"id:28,phase:2,block\"\n" +
		"SecRule ARGS \"@vpsee 2\" \"id:29,phase:3,drop\"\n"
	waf := vp.Setup("c06b", func() any {
		w, err := NewWAF(NewWAFConfig().WithDirectives(conf))
		if err != nil {
			panic(err)
		}
		return w
	}).(WAF)
	vpSeeReset()
	w := waf.NewTransaction()
	w.ProcessConnection("10.1.2.3", 1234, "10.0.0.1", 80)
	w.AddGetRequestArgument("a", "aa")
	w.ProcessRequestHeaders()
	_, _ = w.ProcessRequestBody()
	w.ProcessLogging()
	_ = w.Close()

	vp.MarkShared(waf)
	for round := 0; round < 2; round++ {
		vpSeeReset()
		// the first transaction is fixed (everything matches), the second one is chosen
		c := byte('a')
		xh := 0
		for i := 0; i < 3; i++ {
			vpSeeMatch[i] = true
		}
		if round == 1 {
			for i := 0; i < 3; i++ {
				vpSeeMatch[i] = vp.Bool("match")
			}
			c = []byte{'a', 'b', '%', '\''}[vp.Choice("arg", 4)]
			xh = vp.Choice("xhdr", 3)
		}
		tx := waf.NewTransaction()
		tx.ProcessConnection("10.1.2.3", 1234, "10.0.0.1", 80)
		tx.ProcessURI("/p/7?a="+string([]byte{c, c})+"&x=1", "POST", "HTTP/1.1")
		tx.AddRequestHeader("Host", "h")
		tx.AddRequestHeader("Content-Type", "application/json")
		tx.AddRequestHeader("x", string([]byte{"012"[xh]}))
		tx.ProcessRequestHeaders()
		_, _, _ = tx.WriteRequestBody([]byte("{\"k\":\"" + string([]byte{'a', 'a'}) + "\",\"n\":[1,2]}"))
		_, _ = tx.ProcessRequestBody()
		tx.AddResponseHeader("Content-Type", "text/plain")
		tx.ProcessResponseHeaders(200, "HTTP/1.1")
		_, _, _ = tx.WriteResponseBody([]byte("z"))
		_, _ = tx.ProcessResponseBody()
		tx.ProcessLogging()
		_ = tx.Close()
	}
	vp.Reached("end")
}
