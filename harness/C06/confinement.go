package coraza

import (
	"github.com/corazawaf/coraza/v3/internal/vp"
)

// VpC06Confinement: write-effect confinement of transactions on a shared WAF.  The WAF is built
// (rules with 1..4 exclusions per target so that spare slice capacity exists, run-time ctl
// exclusions, setvar with macros, chains, skip/skipAfter, capture, multiMatch, @rx, @pm), then
// everything reachable from it and from package-level variables is marked shared, and two
// transactions with solver-chosen match bits and argument bytes run on it.  Any store to the
// marked memory that is not made under a mutex or through sync/atomic, sync.Pool or sync.Map
// is a potential data race between concurrent transactions and is reported.
func VpC06Confinement() {
	conf := "SecRuleEngine On\nSecRequestBodyAccess On\nSecResponseBodyAccess On\nSecResponseBodyMimeType text/plain\nSecAuditLogParts ABCFHZ\n" +
		"SecAction \"id:1,phase:1,pass,nolog,ctl:ruleRemoveTargetById=10;ARGS:x,ctl:ruleRemoveTargetByTag=tt;ARGS:y,ctl:ruleRemoveById=90,ctl:ruleRemoveById=91-92\"\n" +
		"SecRule ARGS|!ARGS:e1 \"@vpsee 0\" \"id:10,phase:1,pass,tag:'tt',setvar:tx.a=+1,setvar:tx.m_%{matched_var_name}=%{matched_var}\"\n" +
		"SecRule ARGS|!ARGS:e1|!ARGS:e2|!ARGS:e3 \"@vpsee 1\" \"id:11,phase:1,pass,tag:'tt',capture,multiMatch,t:lowercase,t:removeNulls\"\n" +
		"SecRule ARGS:/^a/|!ARGS:/^ab/ \"@rx ^(a+)$\" \"id:12,phase:2,pass,capture,setvar:tx.c=%{tx.1},chain\"\n" +
		"  SecRule TX:c \"@vpsee 2\" \"setvar:tx.d=1\"\n" +
		"SecRule ARGS \"@pm aa bb\" \"id:13,phase:2,pass,skip:1\"\n" +
		"SecRule ARGS \"@vpsee 3\" \"id:14,phase:2,pass,skipAfter:M\"\n" +
		"SecRule REQUEST_HEADERS:x \"@streq 1\" \"id:15,phase:2,pass,ctl:ruleEngine=DetectionOnly,ctl:auditEngine=On,ctl:auditLogParts=-C,ctl:auditLogParts=+E\"\n" +
		"SecMarker M\n" +
		"SecRule RESPONSE_BODY \"@contains z\" \"id:16,phase:4,deny,status:500\"\n" +
		"SecRule ARGS \"@vpsee 4\" \"id:90,phase:2,pass\"\n"
	// built through the public constructor, which also initialises the audit log writer
	waf := vp.Setup("c06", func() any {
		w, err := NewWAF(NewWAFConfig().WithDirectives(conf))
		if err != nil {
			panic(err)
		}
		return w
	}).(WAF)
	// warm-up transaction: lazily initialised shared state (sync.Once-protected tables etc.) is
	// created before the mark, as it would be by the first request in production
	vpSeeReset()
	w := waf.NewTransaction()
	w.AddGetRequestArgument("a", "aa")
	w.ProcessRequestHeaders()
	_, _ = w.ProcessRequestBody()
	w.ProcessLogging()
	_ = w.Close()

	vp.MarkShared(waf)
	for round := 0; round < 2; round++ {
		vpSeeReset()
		for i := 0; i < 5; i++ {
			vpSeeMatch[i] = vp.Bool("match")
		}
		tx := waf.NewTransaction()
		c := vp.Byte("arg")
		vp.Assume(c == 'a' || c == 'b' || c == 'x')
		tx.AddGetRequestArgument("a", string([]byte{c, c}))
		tx.AddGetRequestArgument("x", "1")
		tx.AddGetRequestArgument("e1", "2")
		tx.AddRequestHeader("Host", "h")
		tx.AddRequestHeader("x", string([]byte{"01"[vp.Choice("xhdr", 2)]}))
		tx.ProcessURI("/p?a=1", "GET", "HTTP/1.1")
		tx.ProcessRequestHeaders()
		_, _ = tx.ProcessRequestBody()
		tx.AddResponseHeader("Content-Type", "text/plain")
		tx.ProcessResponseHeaders(200, "HTTP/1.1")
		_, _, _ = tx.WriteResponseBody([]byte("z"))
		_, _ = tx.ProcessResponseBody()
		tx.ProcessLogging()
		_ = tx.Close()
	}
	vp.Reached("end")
}
