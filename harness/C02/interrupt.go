package coraza

import (
	"github.com/corazawaf/coraza/v3/internal/vp"
	"github.com/corazawaf/coraza/v3/types"
)

type vpC02Act struct {
	text   string
	action string
	status int // 0 = not asserted
	data   string
}

var vpC02Acts = []vpC02Act{
	{"pass", "", 0, ""},
	{"deny", "deny", 403, ""},
	{"redirect:http://x/,status:404", "redirect", 302, "http://x/"},
	{"drop", "drop", 0, ""},
	{"deny,status:500", "deny", 500, ""},
	{"redirect:http://x/", "redirect", 302, "http://x/"},
	{"redirect:http://x/,status:301", "redirect", 301, "http://x/"},
}

// VpC02Interrupt: two rules with arbitrary phases and disruptive actions, an optional
// ctl:ruleEngine switch at the start of phase 1, every engine mode, and an arbitrary sequence
// of phase calls (repeated, skipped, out of order) followed by ProcessLogging.
func VpC02Interrupt() {
	k := 2
	modes := []string{"On", "DetectionOnly", "Off"}
	mode := vp.Choice("mode", 3)
	ctl := vp.Choice("ctl", 4) // 0 none, 1..3 switch to modes[ctl-1]
	var ph [2]int
	var act [2]vpC02Act
	key := "c02:" + vpDigit(mode) + vpDigit(ctl)
	conf := "SecRuleEngine " + modes[mode] + "\n"
	if ctl > 0 {
		conf += "SecRule ARGS \"@vprec 7\" \"id:8,phase:1,pass,ctl:ruleEngine=" + modes[ctl-1] + "\"\n"
	}
	for i := 0; i < k; i++ {
		ph[i] = 1 + vp.Choice("phase", 4)
		ai := vp.Choice("action", vp.Param("ACTS", len(vpC02Acts)))
		act[i] = vpC02Acts[ai]
		key += vpDigit(ph[i]) + vpDigit(ai)
		conf += "SecRule ARGS \"@vprec " + vpDigit(i) + "\" \"id:" + vpDigit(i+1) + ",phase:" + vpDigit(ph[i]) + "," + act[i].text + "\"\n"
	}
	conf += "SecRule ARGS \"@vprec 9\" \"id:10,phase:5,pass\"\n"
	if ctl > 0 {
		// the effect of switching the engine in the middle of a phase on the remaining rules of
		// that same phase is not specified: the other rules are kept out of phase 1
		vp.Assume(ph[0] != 1 && ph[1] != 1)
	}
	waf := vpBuildWAF(key, conf)
	for i := 0; i < k; i++ {
		vpMatchBit[i] = vp.Bool("match")
	}
	vpMatchBit[7] = vp.Bool("ctlmatch")
	vpMatchBit[9] = true

	tx := waf.NewTransaction()
	tx.AddRequestHeader("Host", "h")
	tx.AddGetRequestArgument("a", "1")
	tx.AddResponseHeader("Content-Type", "text/plain")

	// reference state
	cur := mode // 0 On 1 DetectionOnly 2 Off
	last := 0
	var want *vpC02Act
	wantID := 0
	wouldBe := false
	var evaluated [6]int // times each phase was evaluated
	evalPhase := func(p int) {
		last = p
		evaluated[p]++
		var exp []int
		if p == 1 && ctl > 0 {
			exp = append(exp, 7)
			if vpMatchBit[7] {
				cur = ctl - 1
			}
		}
		for i := 0; i < k; i++ {
			if ph[i] != p {
				continue
			}
			if want != nil {
				break
			}
			exp = append(exp, i)
			if vpMatchBit[i] && act[i].action != "" {
				if cur == 0 {
					want = &act[i]
					wantID = i + 1
				} else if cur == 1 {
					wouldBe = true
				}
			}
		}
		vp.Assert(vpSameInts(vpEvalLog, exp), "phase "+vpDigit(p)+": evaluated rules differ from the reference")
		vpEvalLog = vpEvalLog[:0]
	}
	check := func(it *types.Interruption, what string) {
		if want == nil {
			vp.Assert(it == nil, what+" returned an interruption although no disruptive rule fired with the engine On")
			return
		}
		vp.Assert(it != nil, what+" did not report the interruption")
		vp.Assert(it.RuleID == wantID && it.Action == want.action && it.Data == want.data, what+" reports a different interruption (rule id, action or data)")
		if want.status != 0 {
			vp.Assert(it.Status == want.status, what+" reports a different status")
		}
	}
	n := vp.Param("CALLS", 3)
	vpEvalLog = vpEvalLog[:0]
	for c := 0; c < n; c++ {
		switch vp.Choice("call", 4) {
		case 0:
			it := tx.ProcessRequestHeaders()
			if cur == 2 {
				vp.Assert(it == nil && len(vpEvalLog) == 0, "engine Off: ProcessRequestHeaders evaluated rules or interrupted")
			} else if last >= 1 || want != nil {
				vp.Assert(len(vpEvalLog) == 0, "ProcessRequestHeaders evaluated rules a second time or after an interruption")
				check(it, "repeated ProcessRequestHeaders")
			} else {
				evalPhase(1)
				if cur == 2 {
					vp.Assert(it == nil, "engine switched Off: interruption returned")
				} else {
					check(it, "ProcessRequestHeaders")
				}
			}
		case 1:
			it, err := tx.ProcessRequestBody()
			vp.Assert(err == nil, "ProcessRequestBody error")
			if cur == 2 {
				vp.Assert(it == nil && len(vpEvalLog) == 0, "engine Off: ProcessRequestBody evaluated rules or interrupted")
			} else if want != nil {
				vp.Assert(len(vpEvalLog) == 0, "ProcessRequestBody evaluated rules after an interruption")
				check(it, "ProcessRequestBody after interruption")
			} else if last != 1 {
				vp.Assert(it == nil && len(vpEvalLog) == 0, "out-of-order ProcessRequestBody evaluated rules")
			} else {
				evalPhase(2)
				check(it, "ProcessRequestBody")
			}
		case 2:
			it := tx.ProcessResponseHeaders(200, "HTTP/1.1")
			if cur == 2 {
				vp.Assert(it == nil && len(vpEvalLog) == 0, "engine Off: ProcessResponseHeaders evaluated rules or interrupted")
			} else if last >= 3 || want != nil {
				vp.Assert(len(vpEvalLog) == 0, "ProcessResponseHeaders evaluated rules a second time or after an interruption")
				check(it, "repeated ProcessResponseHeaders")
			} else {
				evalPhase(3)
				check(it, "ProcessResponseHeaders")
			}
		default:
			it, err := tx.ProcessResponseBody()
			vp.Assert(err == nil, "ProcessResponseBody error")
			if cur == 2 {
				vp.Assert(it == nil && len(vpEvalLog) == 0, "engine Off: ProcessResponseBody evaluated rules or interrupted")
			} else if want != nil {
				vp.Assert(len(vpEvalLog) == 0, "ProcessResponseBody evaluated rules after an interruption")
				check(it, "ProcessResponseBody after interruption")
			} else if last != 3 {
				vp.Assert(it == nil && len(vpEvalLog) == 0, "out-of-order ProcessResponseBody evaluated rules")
			} else {
				evalPhase(4)
				check(it, "ProcessResponseBody")
			}
		}
	}
	tx.ProcessLogging()
	if cur == 2 {
		vp.Assert(len(vpEvalLog) == 0, "engine Off: logging rules evaluated")
	} else {
		vp.Assert(vpSameInts(vpEvalLog, []int{9}), "logging phase did not evaluate exactly the logging rule")
	}
	check(tx.Interruption(), "Interruption()")
	vp.Assert(tx.IsInterrupted() == (want != nil), "IsInterrupted differs from the reference")
	if cur != 0 || mode != 0 {
		_ = wouldBe
	}
	for p := 1; p <= 4; p++ {
		vp.Assert(evaluated[p] <= 1, "a phase was evaluated more than once")
	}
	_ = tx.Close()
	vp.Reached("end")
}
