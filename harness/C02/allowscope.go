package coraza

import (
	"github.com/corazawaf/coraza/v3/internal/vp"
	"github.com/corazawaf/coraza/v3/types"
)

// VpC02AllowScope: allow:request pending from phase 1 while the connector skips phase calls.  A
// phase-1 allow:request (solver-chosen match bit), a phase-2 deny and a deny in phase 3 or 4;
// every ascending subset of the four phase calls, then ProcessLogging.  allow:request covers the
// request phases only: the phase-2 deny is skipped exactly when the allow fired, and the
// response-phase deny interrupts whenever its phase call arrives - also when phase 2 was never
// evaluated.
func VpC02AllowScope() {
	rp := 3 + vp.Choice("denyphase", 2)
	conf := "SecRuleEngine On\nSecRequestBodyAccess On\nSecResponseBodyAccess On\nSecResponseBodyMimeType text/plain\n" +
		"SecRule REQUEST_HEADERS:x \"@vprec 0\" \"id:1,phase:1,allow:request\"\n" +
		"SecRule REQUEST_HEADERS:x \"@vprec 1\" \"id:2,phase:2,deny,status:402\"\n" +
		"SecRule REQUEST_HEADERS:x \"@vprec 2\" \"id:3,phase:" + vpDigit(rp) + ",deny,status:403\"\n" +
		"SecRule REQUEST_HEADERS:x \"@vprec 9\" \"id:9,phase:5,pass\"\n"
	waf := vpBuildWAF("c02allow:"+vpDigit(rp), conf)
	vpMatchBit[0] = vp.Bool("allowfires")
	vpMatchBit[1], vpMatchBit[2], vpMatchBit[9] = true, true, true
	tx := waf.NewTransaction()
	tx.AddRequestHeader("x", "1")
	vpEvalLog = vpEvalLog[:0]
	var want *int // status of the expected interruption
	s402, s403 := 402, 403
	allow := false
	var got *types.Interruption
	note := func(it *types.Interruption) {
		if got == nil && it != nil {
			got = it
		}
	}
	// (a body phase call is skipped as anomalous unless the headers phase call of the same side
	// came right before it: that is the documented contract of the API, not part of this check)
	c1 := vp.Choice("call1", 2) == 1
	c2 := vp.Choice("call2", 2) == 1
	c3 := vp.Choice("call3", 2) == 1
	c4 := vp.Choice("call4", 2) == 1
	if c1 {
		note(tx.ProcessRequestHeaders())
		allow = vpMatchBit[0]
	}
	if c2 {
		it, _ := tx.ProcessRequestBody()
		note(it)
		if c1 && !allow && want == nil {
			want = &s402
		}
	}
	if c3 {
		tx.AddResponseHeader("Content-Type", "text/plain")
		note(tx.ProcessResponseHeaders(200, "HTTP/1.1"))
		if rp == 3 && want == nil {
			want = &s403
		}
	}
	if c4 {
		it, _ := tx.ProcessResponseBody()
		note(it)
		if c3 && rp == 4 && want == nil {
			want = &s403
		}
	}
	tx.ProcessLogging()
	if want == nil {
		vp.Assert(got == nil && tx.Interruption() == nil, "the transaction was interrupted although no evaluated rule denies")
	} else {
		vp.Assert(got != nil && got.Status == *want, "the first deny whose phase was evaluated outside the allow scope did not interrupt (or another rule did)")
		cur := tx.Interruption()
		vp.Assert(cur != nil && cur.Status == *want, "Interruption() does not report the interruption")
	}
	logging := false
	for _, e := range vpEvalLog {
		if e == 9 {
			logging = true
		}
	}
	vp.Assert(logging, "the logging-phase rule was not evaluated")
	_ = tx.Close()
	vp.Reached("end")
}
