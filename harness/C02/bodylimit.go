package coraza

import (
	"github.com/corazawaf/coraza/v3/internal/vp"
)

// VpC02BodyLimitModes: a body that reaches the limit under Reject interrupts (413 / 500) only
// while the engine is On.  In DetectionOnly - configured, or switched at run time by
// ctl:ruleEngine - no call may return or record an interruption; with the engine Off nothing
// is inspected.  Built through the public coraza.NewWAF API.
func VpC02BodyLimitModes() {
	modes := []string{"On", "DetectionOnly", "Off"}
	mode := vp.Choice("mode", 3)
	ctl := vp.Choice("ctl", 4) // 0 none, else switch to modes[ctl-1] in phase 1
	resp := vp.Choice("response", 2) == 1
	conf := "SecRuleEngine " + modes[mode] + "\nSecRequestBodyAccess On\nSecResponseBodyAccess On\nSecResponseBodyMimeType text/plain\n" +
		"SecRequestBodyLimit 2\nSecResponseBodyLimit 2\nSecRequestBodyLimitAction Reject\nSecResponseBodyLimitAction Reject\n"
	if ctl > 0 {
		conf += "SecAction \"id:1,phase:1,pass,ctl:ruleEngine=" + modes[ctl-1] + "\"\n"
	}
	w := vp.Setup("c02bl:"+vpDigit(mode)+vpDigit(ctl), func() any {
		waf, err := NewWAF(NewWAFConfig().WithDirectives(conf))
		if err != nil {
			panic(err)
		}
		return waf
	}).(WAF)
	// NOTE: with a configured DetectionOnly engine coraza.NewWAF rewrites Reject to ProcessPartial
	// (documented); whether a later ctl:ruleEngine=On restores Reject is not specified, so the
	// "must be refused" clause is only asserted for a configured On engine.
	cur := mode
	tx := w.NewTransaction()
	tx.AddRequestHeader("Host", "h")
	it := tx.ProcessRequestHeaders()
	vp.Assert(it == nil, "interruption in phase 1 without any disruptive rule")
	if ctl > 0 && mode != 2 {
		cur = ctl - 1
	}
	n := 1 + vp.Choice("len", 3)
	body := []byte("abc")[:n]
	if !resp {
		it, _, err := tx.WriteRequestBody(body)
		vp.Assert(err == nil, "WriteRequestBody error")
		if cur == 0 && n >= 2 && mode == 0 {
			vp.Assert(it != nil && it.Status == 413, "engine On + Reject: body reaching the limit was not refused with 413")
		} else if cur != 0 || n < 2 {
			vp.Assert(it == nil, "WriteRequestBody returned an interruption although the engine is not On or the limit was not reached")
		}
		it2, err := tx.ProcessRequestBody()
		vp.Assert(err == nil, "ProcessRequestBody error")
		if cur != 0 {
			vp.Assert(it2 == nil, "ProcessRequestBody returned an interruption although the engine is not On")
		}
	} else {
		_, _ = tx.ProcessRequestBody()
		tx.AddResponseHeader("Content-Type", "text/plain")
		it := tx.ProcessResponseHeaders(200, "HTTP/1.1")
		vp.Assert(it == nil, "interruption in phase 3 without any disruptive rule")
		it, _, err := tx.WriteResponseBody(body)
		vp.Assert(err == nil, "WriteResponseBody error")
		if cur == 0 && n >= 2 && mode == 0 {
			vp.Assert(it != nil && it.Status == 500, "engine On + Reject: response body reaching the limit was not refused with 500")
		} else if cur != 0 || n < 2 {
			vp.Assert(it == nil, "WriteResponseBody returned an interruption although the engine is not On or the limit was not reached")
		}
		it2, err := tx.ProcessResponseBody()
		vp.Assert(err == nil, "ProcessResponseBody error")
		if cur != 0 {
			vp.Assert(it2 == nil, "ProcessResponseBody returned an interruption although the engine is not On")
		}
	}
	tx.ProcessLogging()
	if cur != 0 {
		vp.Assert(!tx.IsInterrupted() && tx.Interruption() == nil, "an interruption was recorded although the engine is not On")
	}
	_ = tx.Close()
	vp.Reached("end")
}
