package coraza

import (
	"strings"

	"github.com/corazawaf/coraza/v3/internal/vp"
	"github.com/corazawaf/coraza/v3/types"
)

// VpC02Final: once a rule has interrupted the transaction, the interruption is final.  A deny in
// phase 1 or 2 (status 401), then a solver-chosen sequence of later calls - body writes through
// the slice and the reader entry points that reach the body limit (Reject or ProcessPartial), a
// repeated ProcessRequestBody, the response phases, ProcessLogging with a disruptive rule in the
// logging phase: every call that returns an interruption returns that first one, and
// Interruption() keeps reporting it to the end.
func VpC02Final() {
	action := []string{"Reject", "ProcessPartial"}[vp.Choice("limitaction", 2)]
	ph := 1 + vp.Choice("denyphase", 2)
	conf := "SecRuleEngine On\nSecRequestBodyAccess On\nSecResponseBodyAccess On\nSecResponseBodyMimeType text/plain\n" +
		"SecRequestBodyLimit 4\nSecRequestBodyLimitAction " + action + "\nSecResponseBodyLimit 4\nSecResponseBodyLimitAction " + action + "\n" +
		"SecAction \"id:1,phase:" + vpDigit(ph) + ",deny,status:401\"\n" +
		"SecAction \"id:2,phase:3,deny,status:403\"\n" +
		"SecAction \"id:3,phase:5,deny,status:500\"\n"
	waf := vpBuildWAF("c02final:"+action+vpDigit(ph), conf)
	tx := waf.NewTransaction()
	tx.AddRequestHeader("Host", "h")
	tx.AddRequestHeader("Content-Type", "application/x-www-form-urlencoded")
	first := tx.ProcessRequestHeaders()
	if ph == 2 {
		vp.Assert(first == nil, "phase 1 interrupted without a phase-1 rule")
		var err error
		first, err = tx.ProcessRequestBody()
		vp.Assert(err == nil, "ProcessRequestBody failed")
	}
	vp.Assert(first != nil && first.RuleID == 1 && first.Status == 401, "the deny rule did not interrupt")
	same := func(it *types.Interruption, what string) {
		vp.Assert(it == nil || (it.RuleID == 1 && it.Status == 401), what+" returned a different interruption than the first one")
		cur := tx.Interruption()
		vp.Assert(cur != nil && cur.RuleID == 1 && cur.Status == 401, "after "+what+" the transaction no longer reports the first interruption")
	}
	n := vp.Param("CALLS", 3)
	for k := 0; k < n; k++ {
		switch vp.Choice("call", 7) {
		case 0:
			it, _, _ := tx.WriteRequestBody([]byte("abcdefgh")) // reaches the limit of 4
			same(it, "WriteRequestBody")
		case 1:
			it, _, _ := tx.ReadRequestBodyFrom(strings.NewReader("abcdefgh"))
			same(it, "ReadRequestBodyFrom")
		case 2:
			it, _ := tx.ProcessRequestBody()
			same(it, "ProcessRequestBody")
		case 3:
			tx.AddResponseHeader("Content-Type", "text/plain")
			same(tx.ProcessResponseHeaders(200, "HTTP/1.1"), "ProcessResponseHeaders")
		case 4:
			it, _, _ := tx.WriteResponseBody([]byte("abcdefgh"))
			same(it, "WriteResponseBody")
		case 5:
			it, _ := tx.ProcessResponseBody()
			same(it, "ProcessResponseBody")
		default:
			// nothing
		}
	}
	tx.ProcessLogging()
	same(nil, "ProcessLogging")
	_ = tx.Close()
	vp.Reached("end")
}
