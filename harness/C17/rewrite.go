package coraza

import (
	"github.com/corazawaf/coraza/v3/internal/corazawaf"
	"github.com/corazawaf/coraza/v3/internal/vp"
)

// base rule set; %T<n> / %A<n> are the places where the rewritten configuration differs
const vpC17Base = `SecRuleEngine On
SecRule %T1 "@vpsee 0" "id:1,phase:1,%A1,tag:'ta',msg:'m1'"
SecRule %T2 "@vpsee 1" "id:2,phase:1,%A2,tag:'tb',msg:'m2'"
SecRule %T3 "@vpsee 2" "id:3,phase:1,%A3,tag:'ta'"
SecRule %T5 "@vpsee 3" "id:5,phase:1,%A5,tag:'tc',chain"
  SecRule %T6 "@vpsee 4" "t:none"
`

type vpC17Case struct {
	directive string            // appended after the base rules (or a ctl rule placed first)
	ctl       bool              // the directive is a run-time ctl action in a rule placed first
	remove    []int             // rule ids absent from the rewritten configuration
	repl      map[string]string // %T<n>/%A<n> overrides of the rewritten configuration
	base      map[string]string // overrides that apply to the edited configuration too
}

var vpC17Cases = []vpC17Case{
	{directive: "SecRuleRemoveById 1", remove: []int{1}},
	{directive: "SecRuleRemoveById 1 3", remove: []int{1, 3}},
	{directive: "SecRuleRemoveById 2-3", remove: []int{2, 3}},
	{directive: "SecRuleRemoveById 1 2-3", remove: []int{1, 2, 3}},
	{directive: "SecRuleRemoveById 5", remove: []int{5}},
	{directive: "SecRuleRemoveByTag ta", remove: []int{1, 3}},
	{directive: "SecRuleRemoveByMsg m2", remove: []int{2}},
	{directive: "SecRuleUpdateTargetById 1 \"!ARGS:a\"", repl: map[string]string{"%T1": "ARGS|!ARGS:a"}},
	{directive: "SecRuleUpdateTargetById 1 3 \"!ARGS:a\"", repl: map[string]string{"%T1": "ARGS|!ARGS:a", "%T3": "ARGS|!ARGS:a"}},
	{directive: "SecRuleUpdateTargetById 1-2 \"!ARGS:a\"", repl: map[string]string{"%T1": "ARGS|!ARGS:a", "%T2": "ARGS|!ARGS:a"}},
	{directive: "SecRuleUpdateTargetById 2 \"ARGS_NAMES\"", repl: map[string]string{"%T2": "ARGS|ARGS_NAMES"}},
	{directive: "SecRuleUpdateTargetByTag ta \"!ARGS:a\"", repl: map[string]string{"%T1": "ARGS|!ARGS:a", "%T3": "ARGS|!ARGS:a"}},
	{directive: "SecRuleUpdateTargetById 2-3 \"ARGS_NAMES\"", repl: map[string]string{"%T2": "ARGS|ARGS_NAMES", "%T3": "ARGS|ARGS_NAMES"}},
	{directive: "SecRuleUpdateTargetByTag ta \"ARGS_NAMES\"", repl: map[string]string{"%T1": "ARGS|ARGS_NAMES", "%T3": "ARGS|ARGS_NAMES"}},
	{directive: "SecRuleUpdateTargetById 5 \"!ARGS:a\"", repl: map[string]string{"%T5": "ARGS|!ARGS:a"}},
	{directive: "SecRuleUpdateActionById 2 \"deny,status:403\"", repl: map[string]string{"%A2": "deny,status:403"}},
	{directive: "SecRuleUpdateActionById 1 2 \"deny,status:403\"", repl: map[string]string{"%A1": "deny,status:403", "%A2": "deny,status:403"}},
	{directive: "SecRuleUpdateActionById 2-3 \"deny,status:403\"", repl: map[string]string{"%A2": "deny,status:403", "%A3": "deny,status:403"}},
	// run-time counterparts
	{directive: "ctl:ruleRemoveById=2", ctl: true, remove: []int{2}},
	{directive: "ctl:ruleRemoveById=1-2", ctl: true, remove: []int{1, 2}},
	{directive: "ctl:ruleRemoveByTag=ta", ctl: true, remove: []int{1, 3}},
	{directive: "ctl:ruleRemoveByMsg=m2", ctl: true, remove: []int{2}},
	{directive: "ctl:ruleRemoveTargetById=1;ARGS:a", ctl: true, repl: map[string]string{"%T1": "ARGS|!ARGS:a"}},
	{directive: "ctl:ruleRemoveTargetById=5;ARGS:a", ctl: true, repl: map[string]string{"%T5": "ARGS|!ARGS:a", "%T6": "ARGS|!ARGS:a"}},
	{directive: "ctl:ruleRemoveTargetByTag=ta;ARGS:a", ctl: true, repl: map[string]string{"%T1": "ARGS|!ARGS:a", "%T3": "ARGS|!ARGS:a"}},
	{directive: "ctl:ruleRemoveTargetByMsg=m2;ARGS:b", ctl: true, repl: map[string]string{"%T2": "ARGS|!ARGS:b"}},
	// regex keys, also on a collection whose keys are matched without regard to case, written with
	// an upper-case letter
	{directive: "ctl:ruleRemoveTargetById=1;ARGS:/^a/", ctl: true, repl: map[string]string{"%T1": "ARGS|!ARGS:/^a/"}},
	{directive: "SecRuleUpdateTargetById 1 \"!ARGS:/^a/\"", repl: map[string]string{"%T1": "ARGS|!ARGS:/^a/"}},
	{directive: "ctl:ruleRemoveTargetById=2;REQUEST_HEADERS:/^X-K/", ctl: true, base: map[string]string{"%T2": "REQUEST_HEADERS"}, repl: map[string]string{"%T2": "REQUEST_HEADERS|!REQUEST_HEADERS:/^X-K/"}},
	{directive: "SecRuleUpdateTargetById 2 \"!REQUEST_HEADERS:/^X-K/\"", base: map[string]string{"%T2": "REQUEST_HEADERS"}, repl: map[string]string{"%T2": "REQUEST_HEADERS|!REQUEST_HEADERS:/^X-K/"}},
	// two regex exclusions (and a regex one followed by a string one) for the same rule and collection
	{directive: "ctl:ruleRemoveTargetById=1;ARGS:/^a/,ctl:ruleRemoveTargetById=1;ARGS:/^b/", ctl: true, repl: map[string]string{"%T1": "ARGS|!ARGS:/^a/|!ARGS:/^b/"}},
	{directive: "ctl:ruleRemoveTargetByTag=ta;ARGS:/^x/,ctl:ruleRemoveTargetByTag=ta;ARGS:/^b/", ctl: true, repl: map[string]string{"%T1": "ARGS|!ARGS:/^x/|!ARGS:/^b/", "%T3": "ARGS|!ARGS:/^x/|!ARGS:/^b/"}},
	{directive: "ctl:ruleRemoveTargetById=1;ARGS:/^x/,ctl:ruleRemoveTargetById=1;ARGS:a", ctl: true, repl: map[string]string{"%T1": "ARGS|!ARGS:/^x/|!ARGS:a"}},
	{directive: "ctl:ruleRemoveTargetByTag=tb;REQUEST_HEADERS:X-K", ctl: true, base: map[string]string{"%T2": "REQUEST_HEADERS"}, repl: map[string]string{"%T2": "REQUEST_HEADERS|!REQUEST_HEADERS:X-K"}},
}

func vpReplaceAll(s, old, new string) string {
	out := ""
	for i := 0; i < len(s); {
		if i+len(old) <= len(s) && s[i:i+len(old)] == old {
			out += new
			i += len(old)
		} else {
			out += string(s[i])
			i++
		}
	}
	return out
}

func vpC17Conf(repl map[string]string, remove []int) string {
	c := vpC17Base
	for _, k := range []string{"%T1", "%T2", "%T3", "%T5", "%T6"} {
		v := "ARGS"
		if r, ok := repl[k]; ok {
			v = r
		}
		c = vpReplaceAll(c, k, v)
	}
	for _, k := range []string{"%A1", "%A2", "%A3", "%A5"} {
		v := "pass"
		if r, ok := repl[k]; ok {
			v = r
		}
		c = vpReplaceAll(c, k, v)
	}
	// drop removed rules (a rule is the line(s) starting at "SecRule" with its id)
	out := ""
	lines := []string{}
	cur := ""
	for i := 0; i < len(c); i++ {
		cur += string(c[i])
		if c[i] == '\n' {
			lines = append(lines, cur)
			cur = ""
		}
	}
	skipChain := false
	for _, l := range lines {
		drop := false
		for _, id := range remove {
			if vpHas(l, "\"id:"+vpD(id)+",") {
				drop = true
				if vpHas(l, "chain") {
					skipChain = true
				}
			}
		}
		if !drop && skipChain && vpHas(l, "t:none") {
			drop = true
			skipChain = false
		}
		if !drop {
			out += l
		}
	}
	return out
}

func vpHas(s, sub string) bool {
	for i := 0; i+len(sub) <= len(s); i++ {
		if s[i:i+len(sub)] == sub {
			return true
		}
	}
	return false
}

type vpC17Out struct {
	seen        [8][]string
	fired       []string
	interrupted bool
	ruleID      int
}

func vpC17Run(waf *corazawaf.WAF, bits [8]bool) vpC17Out {
	vpSeeReset()
	vpSeeMatch = bits
	tx := waf.NewTransaction()
	tx.AddGetRequestArgument("a", "1")
	tx.AddGetRequestArgument("b", "2")
	tx.AddRequestHeader("X-K", "hv")
	tx.AddRequestHeader("Y", "hy")
	tx.ProcessRequestHeaders()
	var o vpC17Out
	o.seen = vpSeen
	for _, mr := range tx.MatchedRules() {
		if id := mr.Rule().ID(); id != 20 {
			o.fired = append(o.fired, vpD(id))
		}
	}
	if it := tx.Interruption(); it != nil {
		o.interrupted, o.ruleID = true, it.RuleID
	}
	tx.ProcessLogging()
	_ = tx.Close()
	return o
}

// VpC17Rewrite: a configuration edited by a removal/update directive (or its run-time ctl
// counterpart) behaves, for every subset of matching rules, exactly like the explicitly
// rewritten configuration; a ctl edit does not leak into the next transaction.
func VpC17Rewrite() {
	ci := vp.Choice("case", vp.Param("CASES", len(vpC17Cases)))
	c := vpC17Cases[ci]
	var edited string
	if c.ctl {
		edited = "SecAction \"id:20,phase:1,pass," + c.directive + "\"\n" + vpC17Conf(c.base, nil)
	} else {
		edited = vpC17Conf(c.base, nil) + c.directive + "\n"
	}
	key := vpD(ci/10) + vpD(ci%10)
	wafE := vpBuild("c17e:"+key, edited)
	wafR := vpBuild("c17r:"+key, vpC17Conf(c.repl, c.remove))
	wafB := vpBuild("c17base", vpC17Conf(nil, nil))
	var bits [8]bool
	for i := 0; i < 5; i++ {
		bits[i] = vp.Bool("match")
	}
	e := vpC17Run(wafE, bits)
	r := vpC17Run(wafR, bits)
	for n := 0; n < 5; n++ {
		vp.Assert(vpMultisetEq(e.seen[n], r.seen[n]), c.directive+": values evaluated by rule operator "+vpD(n)+" differ from the rewritten configuration")
	}
	vp.Assert(vpMultisetEq(e.fired, r.fired), c.directive+": fired rules differ from the rewritten configuration")
	vp.Assert(e.interrupted == r.interrupted && e.ruleID == r.ruleID, c.directive+": interruption differs from the rewritten configuration")
	if c.ctl {
		// the same WAF, next transaction, with the ctl rule not matching... the ctl rule is a
		// SecAction (always matches), so compare a transaction on a WAF without it instead:
		// effects of the first transaction must not be visible on the recycled transaction
		b := vpC17Run(wafB, bits)
		e2 := vpC17Run(wafE, bits)
		vp.Assert(vpMultisetEq(e2.fired, e.fired), c.directive+": second transaction on the same WAF behaves differently from the first")
		_ = b
	}
	vp.Reached("end")
}
