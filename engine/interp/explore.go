package interp

import (
	"fmt"
	"os"
	"sort"
	"strings"
	"sync"
	"time"

	"verif/engine/smt"
)

type decKind uint8

const (
	dBranch decKind = iota
	dChoice
	dConc
)

type decision struct {
	kind decKind
	val  uint64
	excl []uint64 // dConc: values excluded before val was chosen
	pend bool     // dConc: val still to be taken from the model
}

type workItem struct {
	prefix []decision
	model  map[string]uint64
}

// Draw is one nondeterministic input of the harness, in call order.
type Draw struct {
	Tag  string `json:"tag"`
	Kind string `json:"kind"` // byte, bytes, string, int, bool, choice
	N    int    `json:"n,omitempty"`
	// concrete value under the reported model
	Int   int64  `json:"int,omitempty"`
	Bytes []byte `json:"bytes,omitempty"`

	terms  []*smt.Term
	signed bool
}

type Observation struct {
	Tag string `json:"tag"`
	Val string `json:"val"`
}

// Violation is a feasible assertion failure or panic together with a concrete input.
type Violation struct {
	Harness string        `json:"harness"`
	Msg     string        `json:"msg"`
	Kind    string        `json:"kind"` // assert | panic
	Where   string        `json:"where,omitempty"`
	Draws   []Draw        `json:"draws"`
	Obs     []Observation `json:"observations,omitempty"`
	Count   int           `json:"count"`
	// EngineOnly: the violation is a property of the execution itself (an unsynchronised store, an
	// injected fault) that the native run of the harness cannot observe.
	EngineOnly bool `json:"engine_only,omitempty"`
}

type Witness struct {
	Harness string        `json:"harness"`
	Tag     string        `json:"tag"`
	Draws   []Draw        `json:"draws"`
	Obs     []Observation `json:"observations,omitempty"`
	size    int
}

// Config bounds one harness run.
type Config struct {
	Harness     string
	Entry       string // "pkgpath.Func"
	Workers     int
	StepBudget  int64
	PathBudget  int64
	SolverMs    int
	Solver      string
	Params      map[string]int // harness parameters readable through vp.Param
	MaxViol     int
	Trace       bool
	KeepScripts int // number of verdict queries kept as stand-alone scripts for cross-checking
}

// Shared is the state shared by the workers exploring one harness.
type Shared struct {
	cfg  Config
	mu   sync.Mutex
	cond *sync.Cond
	work []*workItem
	busy int
	stop bool

	internMu  sync.Mutex
	internTab map[string]string

	Paths        int64
	Decisions    int64
	Steps        int64
	PathsEnded   map[string]int64 // reason -> count
	Violations   map[string]*Violation
	Witnesses    map[string]*Witness
	Inconclusive []string
	Queries      int64
	EvalWitness  int64 // feasibility questions answered by an evaluated witness (no query)
	SatN, UnsatN int64
	UnknownN     int64
	SolverTime   float64
	FuncSteps    map[string]int64
	Stubs        map[string]int64
	Scripts      []string
	scriptSeen   int64
	Assumes      map[string]int64
	MaxPathSteps int64
}

func (s *Shared) intern(str string) string {
	s.internMu.Lock()
	defer s.internMu.Unlock()
	if e, ok := s.internTab[str]; ok {
		return e
	}
	str = strings.Clone(str)
	s.internTab[str] = str
	return str
}

func (s *Shared) push(it *workItem) {
	s.mu.Lock()
	s.work = append(s.work, it)
	s.mu.Unlock()
	s.cond.Signal()
}

func (s *Shared) pop() *workItem {
	s.mu.Lock()
	defer s.mu.Unlock()
	for {
		if s.stop {
			return nil
		}
		if n := len(s.work); n > 0 {
			it := s.work[n-1]
			s.work = s.work[:n-1]
			s.busy++
			return it
		}
		if s.busy == 0 {
			s.cond.Broadcast()
			return nil
		}
		s.cond.Wait()
	}
}

func (s *Shared) done() {
	s.mu.Lock()
	s.busy--
	if s.busy == 0 && len(s.work) == 0 {
		s.cond.Broadcast()
	}
	s.mu.Unlock()
}

func (s *Shared) inconclusive(msg string) {
	s.mu.Lock()
	if len(s.Inconclusive) < 20 {
		s.Inconclusive = append(s.Inconclusive, msg)
	}
	s.stop = true
	s.mu.Unlock()
	s.cond.Broadcast()
}

type explorer struct {
	shared *Shared
	i      *interpreter
	ctx    *smt.Ctx
	solver *smt.Solver

	prefix    []decision
	pos       int
	decisions []decision
	pc        []*smt.Term
	model     map[*smt.Term]uint64
	itemModel map[string]uint64
	decided   map[*smt.Term]bool
	draws     []Draw
	tagCount  map[string]int
	obs       []obsRec

	local     *localMode
	bind      map[*smt.Term]*smt.Term
	substMemo map[*smt.Term]*smt.Term

	evalWitness   int64
	mapOrderOn    bool
	mapOrderMax   int
	adversMapPkgs map[string]bool
}

type obsRec struct {
	tag string
	v   value
}

func (ex *explorer) resetPath(it *workItem) {
	ex.prefix = it.prefix
	ex.pos = 0
	ex.decisions = ex.decisions[:0]
	ex.pc = ex.pc[:0]
	ex.model = map[*smt.Term]uint64{}
	ex.itemModel = it.model
	ex.decided = map[*smt.Term]bool{}
	ex.draws = ex.draws[:0]
	ex.tagCount = map[string]int{}
	ex.obs = ex.obs[:0]
	ex.local = nil
	ex.bind = map[*smt.Term]*smt.Term{}
	ex.substMemo = map[*smt.Term]*smt.Term{}
	ex.mapOrderOn = false
	ex.mapOrderMax = 3
	ex.adversMapPkgs = nil
}

func (ex *explorer) newVar(tag string, w smt.Sort) *smt.Term {
	v := ex.ctx.Var(tag, w)
	if ex.itemModel != nil {
		if val, ok := ex.itemModel[tag]; ok {
			ex.model[v] = val
		}
	}
	return v
}

func (ex *explorer) freshTag(tag string) string {
	n := ex.tagCount[tag]
	ex.tagCount[tag] = n + 1
	if n == 0 {
		return tag
	}
	return fmt.Sprintf("%s#%d", tag, n)
}

func (ex *explorer) addPC(t *smt.Term) {
	if t.IsConst() {
		return
	}
	if t.Op == smt.OpAnd {
		ex.addPC(t.Args[0])
		ex.addPC(t.Args[1])
		return
	}
	if _, ok := ex.decided[t]; ok {
		return
	}
	// equality concretisation: var == const binds the variable for later simplification
	if t.Op == smt.OpEq {
		a, b := t.Args[0], t.Args[1]
		if a.Op == smt.OpConst {
			a, b = b, a
		}
		if a.Op == smt.OpVar && b.Op == smt.OpConst {
			if _, have := ex.bind[a]; !have {
				ex.bind[a] = b
				ex.substMemo = map[*smt.Term]*smt.Term{}
			}
		}
	}
	ex.pc = append(ex.pc, t)
	ex.decided[t] = true
	if t.Op == smt.OpNot {
		ex.decided[t.Args[0]] = false
	} else {
		ex.decided[ex.ctx.Not(t)] = false
	}
}

func (ex *explorer) modelByName(m map[*smt.Term]uint64) map[string]uint64 {
	r := make(map[string]uint64, len(m))
	for k, v := range m {
		r[k.Name] = v
	}
	return r
}

func (ex *explorer) curModelByName() map[string]uint64 {
	r := ex.modelByName(ex.model)
	// keep values of variables not yet created on this path
	for k, v := range ex.itemModel {
		if _, ok := r[k]; !ok {
			r[k] = v
		}
	}
	return r
}

func (ex *explorer) clonePrefix(extra decision) []decision {
	p := make([]decision, len(ex.decisions)+1)
	copy(p, ex.decisions)
	p[len(ex.decisions)] = extra
	return p
}

func (ex *explorer) check(extra *smt.Term) (smt.Result, map[*smt.Term]uint64) {
	ex.solver.SyncTo(ex.pc)
	start := time.Now()
	res, m := ex.solver.Check(extra, true)
	if res == smt.Unsat && ex.shared.cfg.KeepScripts > 0 {
		// keep a spread of the verdict-bearing (unsat) queries as stand-alone scripts: the first
		// few and then one in 500, for the cross-check against the other solvers
		sh := ex.shared
		sh.mu.Lock()
		sh.scriptSeen++
		n := sh.scriptSeen
		keep := len(sh.Scripts) < sh.cfg.KeepScripts && (n <= 3 || n%500 == 0)
		sh.mu.Unlock()
		if keep {
			txt := smt.Script(ex.pc, extra)
			sh.mu.Lock()
			if len(sh.Scripts) < sh.cfg.KeepScripts {
				sh.Scripts = append(sh.Scripts, txt)
			}
			sh.mu.Unlock()
		}
	}
	if slowLog != "" {
		if d := time.Since(start); d > 100*time.Millisecond {
			f, err := os.OpenFile(slowLog, os.O_APPEND|os.O_CREATE|os.O_WRONLY, 0o644)
			if err == nil {
				fmt.Fprintf(f, "; slow query %v result %v pc=%d\n%s\n", d, res, len(ex.pc), smt.Script(ex.pc, extra))
				f.Close()
			}
		}
	}
	return res, m
}

var slowLog = os.Getenv("VP_SLOWLOG")
var unsatLog = os.Getenv("VP_UNSATLOG")

// branch decides a symbolic condition on the current path, scheduling the other side when it
// is feasible too.
func (ex *explorer) branch(cond *smt.Term) bool {
	if cond.IsConst() {
		return cond.Val == 1
	}
	if ex.local != nil {
		return ex.localBranch(cond)
	}
	if v, ok := ex.decided[cond]; ok {
		return v
	}
	if len(ex.bind) > 0 {
		if sc := ex.ctx.Subst(cond, ex.bind, ex.substMemo); sc != cond {
			if sc.IsConst() {
				return sc.Val == 1
			}
			if v, ok := ex.decided[sc]; ok {
				return v
			}
			cond = sc
		}
	}
	if ex.pos < len(ex.prefix) {
		d := ex.prefix[ex.pos]
		ex.pos++
		if d.kind != dBranch {
			panic(engineFault{msg: "replay divergence: expected branch decision"})
		}
		b := d.val == 1
		ex.decisions = append(ex.decisions, d)
		if b {
			ex.addPC(cond)
		} else {
			ex.addPC(ex.ctx.Not(cond))
		}
		return b
	}
	b := ex.ctx.Eval(cond, ex.model) == 1
	alt := cond
	if b {
		alt = ex.ctx.Not(cond)
	}
	var res smt.Result
	var m map[*smt.Term]uint64
	if gm := ex.guessOther(cond, alt); gm != nil {
		ex.evalWitness++
		res, m = smt.Sat, gm
	} else {
		res, m = ex.check(alt)
	}
	if unsatLog != "" && res == smt.Unsat {
		f, err := os.OpenFile(unsatLog, os.O_APPEND|os.O_CREATE|os.O_WRONLY, 0o644)
		if err == nil {
			fmt.Fprintf(f, "ALT %s\n", trunc(alt.String(), 300))
			f.Close()
		}
	}
	switch res {
	case smt.Sat:
		ex.shared.push(&workItem{prefix: ex.clonePrefix(decision{kind: dBranch, val: b2u(!b)}), model: ex.modelByName(m)})
	case smt.Unknown:
		// The side the current model takes is feasible (the model witnesses it), so the path
		// goes on; the other side stays undecided unless a guessed assignment satisfies it.
		if gm := ex.guessModel(alt); gm != nil {
			ex.shared.push(&workItem{prefix: ex.clonePrefix(decision{kind: dBranch, val: b2u(!b)}), model: ex.modelByName(gm)})
		} else {
			ex.shared.inconclusive("solver unknown on branch feasibility (side not explored): " + ex.solver.LastErr)
		}
	}
	ex.decisions = append(ex.decisions, decision{kind: dBranch, val: b2u(b)})
	if b {
		ex.addPC(cond)
	} else {
		ex.addPC(ex.ctx.Not(cond))
	}
	return b
}

// guessOther looks, by evaluation alone, for a model of the path condition and other that
// differs from the current model in one small variable of t.  Only a hit is used (it is a
// checked witness); a miss says nothing and the solver is asked.
func (ex *explorer) guessOther(t, other *smt.Term) map[*smt.Term]uint64 {
	var vars []*smt.Term
	seen := map[*smt.Term]bool{}
	var walk func(x *smt.Term)
	walk = func(x *smt.Term) {
		if seen[x] || len(vars) > 4 {
			return
		}
		seen[x] = true
		if x.Op == smt.OpVar {
			vars = append(vars, x)
			return
		}
		for _, a := range x.Args {
			walk(a)
		}
	}
	walk(t)
	if len(vars) == 0 || len(vars) > 4 {
		return nil
	}
	for _, v := range vars {
		if v.Sort == 0 || v.Sort > 8 {
			continue
		}
		old := ex.model[v]
		for c := uint64(0); c < uint64(1)<<uint(v.Sort); c++ {
			if c == old {
				continue
			}
			ex.model[v] = c
			ok := ex.ctx.Eval(other, ex.model) == 1
			for _, p := range ex.pc {
				if !ok {
					break
				}
				ok = ex.ctx.Eval(p, ex.model) == 1
			}
			if ok {
				m := make(map[*smt.Term]uint64, len(ex.model))
				for k, val := range ex.model {
					m[k] = val
				}
				ex.model[v] = old
				return m
			}
		}
		ex.model[v] = old
	}
	return nil
}

// guessModel looks for an assignment of the path's variables that satisfies the path condition
// and extra by evaluation alone: the current model with some variables redrawn. A hit is a
// checked witness (every conjunct evaluates to true), so it is as good as a solver model.
func (ex *explorer) guessModel(extra *smt.Term) map[*smt.Term]uint64 {
	vars := make([]*smt.Term, 0, len(ex.model))
	for v := range ex.model {
		vars = append(vars, v)
	}
	sort.Slice(vars, func(a, b int) bool { return vars[a].Name < vars[b].Name })
	seed := uint64(0x9e3779b97f4a7c15)
	next := func() uint64 {
		seed ^= seed << 13
		seed ^= seed >> 7
		seed ^= seed << 17
		return seed
	}
	for try := 0; try < 64; try++ {
		m := make(map[*smt.Term]uint64, len(ex.model))
		for _, v := range vars {
			m[v] = ex.model[v]
			if next()%4 == 0 {
				w := uint(v.Sort)
				r := next()
				if w == 0 {
					r &= 1
				} else if w < 64 {
					r &= (uint64(1) << w) - 1
				}
				m[v] = r
			}
		}
		ok := ex.ctx.Eval(extra, m) == 1
		for _, c := range ex.pc {
			if !ok {
				break
			}
			ok = ex.ctx.Eval(c, m) == 1
		}
		if ok {
			return m
		}
	}
	return nil
}

func b2u(b bool) uint64 {
	if b {
		return 1
	}
	return 0
}

// choice enumerates 0..k-1.
func (ex *explorer) choice(tag string, k int) int {
	if k <= 1 {
		return 0
	}
	if ex.local != nil {
		panic(localFail{"choice in pure call"})
	}
	if ex.pos < len(ex.prefix) {
		d := ex.prefix[ex.pos]
		ex.pos++
		if d.kind != dChoice {
			panic(engineFault{msg: "replay divergence: expected choice decision"})
		}
		ex.decisions = append(ex.decisions, d)
		return int(d.val)
	}
	mb := ex.curModelByName()
	for v := k - 1; v >= 1; v-- {
		ex.shared.push(&workItem{prefix: ex.clonePrefix(decision{kind: dChoice, val: uint64(v)}), model: mb})
	}
	ex.decisions = append(ex.decisions, decision{kind: dChoice, val: 0})
	return 0
}

// concretize forks over the feasible values of t.
func (ex *explorer) concretize(t *smt.Term) uint64 {
	if t.IsConst() {
		return t.Val
	}
	c := ex.ctx
	if ex.local != nil {
		panic(localFail{"concretization in pure call"})
	}
	var excl []uint64
	if ex.pos < len(ex.prefix) {
		d := ex.prefix[ex.pos]
		ex.pos++
		if d.kind != dConc {
			panic(engineFault{msg: "replay divergence: expected concretization decision"})
		}
		if !d.pend {
			ex.decisions = append(ex.decisions, d)
			ex.addPC(c.Eq(t, c.BV(d.val, t.Sort)))
			return d.val
		}
		excl = d.excl
	}
	v := c.Eval(t, ex.model)
	// is another value feasible?
	other := c.Not(c.Eq(t, c.BV(v, t.Sort)))
	for _, e := range excl {
		other = c.And(other, c.Not(c.Eq(t, c.BV(e, t.Sort))))
	}
	var res smt.Result
	var m map[*smt.Term]uint64
	if gm := ex.guessOther(t, other); gm != nil {
		// another value found by evaluation alone: a checked witness, no query needed
		ex.evalWitness++
		res, m = smt.Sat, gm
	} else {
		res, m = ex.check(other)
	}
	switch res {
	case smt.Sat:
		ne := append(append([]uint64{}, excl...), v)
		ex.shared.push(&workItem{prefix: ex.clonePrefix(decision{kind: dConc, excl: ne, pend: true}), model: ex.modelByName(m)})
	case smt.Unknown:
		ex.shared.inconclusive("solver unknown on concretization: " + ex.solver.LastErr)
		panic(pathEnd{"solver unknown"})
	}
	ex.decisions = append(ex.decisions, decision{kind: dConc, val: v})
	ex.addPC(c.Eq(t, c.BV(v, t.Sort)))
	return v
}

// assume restricts the path to cond.
func (ex *explorer) assume(cond *smt.Term) {
	if cond.IsConst() {
		if cond.Val == 0 {
			panic(pathEnd{"assume false"})
		}
		return
	}
	if v, ok := ex.decided[cond]; ok {
		if !v {
			panic(pathEnd{"assume false"})
		}
		return
	}
	if ex.ctx.Eval(cond, ex.model) == 1 {
		ex.addPC(cond)
		return
	}
	if ex.pos < len(ex.prefix) {
		// cannot happen: the item's model satisfies every conjunct of its prefix
		panic(engineFault{msg: "replay divergence: assumption false under the item's model"})
	}
	res, m := ex.check(cond)
	switch res {
	case smt.Sat:
		ex.model = m
		ex.itemModel = nil
		ex.addPC(cond)
	case smt.Unsat:
		panic(pathEnd{"assume infeasible"})
	default:
		ex.shared.inconclusive("solver unknown on assumption: " + ex.solver.LastErr)
		panic(pathEnd{"solver unknown"})
	}
}

// checkNoPanic forks: where cond can be false the path panics with msg.
func (ex *explorer) checkNoPanic(cond *smt.Term, msg string) {
	if !ex.branch(cond) {
		panic(rtPanic(msg))
	}
}

func (ex *explorer) evalDraws() []Draw {
	out := make([]Draw, len(ex.draws))
	for k, d := range ex.draws {
		o := Draw{Tag: d.Tag, Kind: d.Kind, N: d.N}
		switch d.Kind {
		case "choice":
			o.Int = d.Int
		case "bytes", "string":
			o.Bytes = make([]byte, len(d.terms))
			for j, t := range d.terms {
				o.Bytes[j] = byte(ex.ctx.Eval(t, ex.model))
			}
		default:
			v := ex.ctx.Eval(d.terms[0], ex.model)
			if d.signed {
				o.Int = sext(v, d.terms[0].Sort)
			} else {
				o.Int = int64(v)
			}
		}
		out[k] = o
	}
	return out
}

func (ex *explorer) evalObs() []Observation {
	var out []Observation
	for _, o := range ex.obs {
		out = append(out, Observation{Tag: o.tag, Val: ex.showValue(o.v)})
	}
	return out
}

// showValue renders a value under the current model (Go %v-like for scalars, %q for strings).
func (ex *explorer) showValue(v value) string {
	switch x := v.(type) {
	case *sym:
		bits := ex.ctx.Eval(x.t, ex.model)
		if x.k == 1 /* types.Bool */ {
			return fmt.Sprint(bits == 1)
		}
		if kindSigned(x.k) {
			return fmt.Sprint(sext(bits, x.t.Sort))
		}
		return fmt.Sprint(bits)
	case string:
		return fmt.Sprintf("%q", x)
	case *symstr:
		b := make([]byte, len(x.b))
		for i, e := range x.b {
			switch e := e.(type) {
			case uint8:
				b[i] = e
			case *sym:
				b[i] = byte(ex.ctx.Eval(e.t, ex.model))
			}
		}
		return fmt.Sprintf("%q", string(b))
	case []value:
		var sb strings.Builder
		sb.WriteString("[")
		for i, e := range x {
			if i > 0 {
				sb.WriteString(" ")
			}
			sb.WriteString(ex.showValue(e))
		}
		sb.WriteString("]")
		return sb.String()
	case iface:
		if x.t == nil {
			return "<nil>"
		}
		return ex.showValue(x.v)
	case bool, int, int8, int16, int32, int64, uint, uint8, uint16, uint32, uint64, uintptr:
		return fmt.Sprint(x)
	}
	return fmt.Sprintf("<%T>", v)
}

func (ex *explorer) violationEngineOnly(kind, msg, where string) {
	ex.violation(kind, msg, where)
	s := ex.shared
	s.mu.Lock()
	if v, ok := s.Violations[kind+":"+msg]; ok {
		v.EngineOnly = true
	}
	s.mu.Unlock()
}

func (ex *explorer) violation(kind, msg, where string) {
	s := ex.shared
	draws := ex.evalDraws()
	obs := ex.evalObs()
	s.mu.Lock()
	defer s.mu.Unlock()
	key := kind + ":" + msg
	if v, ok := s.Violations[key]; ok {
		v.Count++
		return
	}
	s.Violations[key] = &Violation{Harness: s.cfg.Harness, Msg: msg, Kind: kind, Where: where, Draws: draws, Obs: obs, Count: 1}
	if s.cfg.MaxViol > 0 && len(s.Violations) >= s.cfg.MaxViol {
		s.stop = true
		s.cond.Broadcast()
	}
}

func drawsSize(ds []Draw) int {
	n := 0
	for _, d := range ds {
		n += len(d.terms) + 1
	}
	return n
}

// reached records a witness for tag: the first path that gets there and, under tag+"#max",
// the one with the largest input seen so far (so that native validation is not only run on
// the empty input).
func (ex *explorer) reached(tag string) {
	s := ex.shared
	size := drawsSize(ex.draws)
	s.mu.Lock()
	_, have := s.Witnesses[tag]
	big, haveBig := s.Witnesses[tag+"#max"]
	s.mu.Unlock()
	if have && haveBig && big.size >= size {
		return
	}
	w := &Witness{Harness: s.cfg.Harness, Tag: tag, Draws: ex.evalDraws(), Obs: ex.evalObs(), size: size}
	s.mu.Lock()
	if _, ok := s.Witnesses[tag]; !ok {
		s.Witnesses[tag] = w
	} else if b, ok := s.Witnesses[tag+"#max"]; !ok || b.size < size {
		s.Witnesses[tag+"#max"] = w
	}
	s.mu.Unlock()
}

// SortedViolations returns the violations in a stable order.
func (s *Shared) SortedViolations() []*Violation {
	var keys []string
	for k := range s.Violations {
		keys = append(keys, k)
	}
	sort.Strings(keys)
	var out []*Violation
	for _, k := range keys {
		out = append(out, s.Violations[k])
	}
	return out
}
