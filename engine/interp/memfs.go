package interp

// In-memory model of the file-system calls coraza makes for body spill-over and uploads
// (os.CreateTemp, *os.File Write/Read/ReadAt/Close/Name, os.Remove).  Contents may be symbolic
// bytes.  With fault injection on (vp.FaultInjection) every call first draws a symbolic boolean
// "this call fails".

import (
	"fmt"
	"go/types"
	"strings"

	"verif/engine/smt"
)

type memFS struct {
	files     map[string]*memFile
	seq       int
	faultsOn  bool
	maxFaults int
	faults    int
	log       []string
}

type memFile struct {
	name    string
	data    []value
	removed bool
}

type memHandle struct {
	f      *memFile
	pos    int
	closed bool
}

func newMemFS() *memFS { return &memFS{files: map[string]*memFile{}} }

func (fr *frame) ioEOF() value {
	pkg := fr.i.prog.ImportedPackage("io")
	if pkg == nil {
		panic(unsupported("package io not loaded"))
	}
	return *fr.i.global(pkg.Var("EOF"))
}

// fault decides whether the file-system call op fails on this path.
func (fr *frame) fsFault(op string) bool {
	fs := fr.i.fs
	if !fs.faultsOn || fs.faults >= fs.maxFaults {
		return false
	}
	ex := fr.i.ex
	tag := ex.freshTag("fault:" + op)
	t := ex.newVar(tag, 8)
	ex.draws = append(ex.draws, Draw{Tag: tag, Kind: "bool", terms: []*smt.Term{t}})
	ex.assume(ex.ctx.Bin(smt.OpUle, t, ex.ctx.BV(1, 8)))
	if ex.branch(ex.ctx.Eq(t, ex.ctx.BV(1, 8))) {
		fs.faults++
		fs.log = append(fs.log, op)
		return true
	}
	return false
}

func (fr *frame) fsErr(op, name string) value {
	return fr.newError(op + " " + name + ": injected I/O error")
}

func init() {
	reg("os.CreateTemp", func(fr *frame, args []value) value {
		fs := fr.i.fs
		dir := concStr(fr, args[0], "os.CreateTemp")
		pat := concStr(fr, args[1], "os.CreateTemp")
		if fr.fsFault("create") {
			return tuple{native{v: (*memHandle)(nil)}, fr.fsErr("open", dir+"/"+pat)}
		}
		fs.seq++
		name := dir + "/" + strings.Replace(pat, "*", fmt.Sprintf("%06d", fs.seq), 1)
		if !strings.Contains(pat, "*") {
			name = dir + "/" + pat + fmt.Sprintf("%06d", fs.seq)
		}
		f := &memFile{name: name}
		fs.files[name] = f
		return tuple{native{v: &memHandle{f: f}}, iface{}}
	})
	reg("os.OpenFile", func(fr *frame, args []value) value {
		// create-or-append open, as the audit writers use it
		fs := fr.i.fs
		name := concStr(fr, args[0], "os.OpenFile")
		if fr.fsFault("create") {
			return tuple{native{v: (*memHandle)(nil)}, fr.fsErr("open", name)}
		}
		f, ok := fs.files[name]
		if !ok || f.removed {
			f = &memFile{name: name}
			fs.files[name] = f
		}
		return tuple{native{v: &memHandle{f: f, pos: len(f.data)}}, iface{}}
	})
	reg("os.Remove", func(fr *frame, args []value) value {
		name := concStr(fr, args[0], "os.Remove")
		if fr.fsFault("remove") {
			return fr.fsErr("remove", name)
		}
		f, ok := fr.i.fs.files[name]
		if !ok || f.removed {
			return fr.newError("remove " + name + ": no such file or directory")
		}
		f.removed = true
		return iface{}
	})
	reg("os.MkdirAll", func(fr *frame, args []value) value { return iface{} })
	reg("os.MkdirTemp", func(fr *frame, args []value) value {
		fr.i.fs.seq++
		return tuple{fmt.Sprintf("%s/vpdir%06d", concStr(fr, args[0], "os.MkdirTemp"), fr.i.fs.seq), iface{}}
	})

	nativeHooks["*interp.memHandle.Write"] = func(fr *frame, recv any, args []value) value {
		h := recv.(*memHandle)
		if h == nil {
			return tuple{0, fr.newError("invalid argument")}
		}
		if h.closed {
			return tuple{0, fr.newError("write " + h.f.name + ": file already closed")}
		}
		if fr.fsFault("write") {
			return tuple{0, fr.fsErr("write", h.f.name)}
		}
		p := args[0].([]value)
		// a write at pos (append-only use in coraza)
		for len(h.f.data) < h.pos {
			h.f.data = append(h.f.data, uint8(0))
		}
		h.f.data = append(h.f.data[:h.pos:h.pos], p...)
		h.pos += len(p)
		return tuple{len(p), iface{}}
	}
	nativeHooks["*interp.memHandle.Read"] = func(fr *frame, recv any, args []value) value {
		h := recv.(*memHandle)
		if h == nil {
			return tuple{0, fr.newError("invalid argument")}
		}
		if h.closed {
			return tuple{0, fr.newError("read " + h.f.name + ": file already closed")}
		}
		if fr.fsFault("read") {
			return tuple{0, fr.fsErr("read", h.f.name)}
		}
		p := args[0].([]value)
		if len(p) == 0 {
			return tuple{0, iface{}}
		}
		// NOTE: as with a real *os.File the read offset is shared with Write: after writing, the
		// offset is at the end of the file
		n := 0
		for n < len(p) && h.pos < len(h.f.data) {
			fr.i.setCell(&p[n], h.f.data[h.pos])
			n++
			h.pos++
		}
		if n == 0 {
			return tuple{0, fr.ioEOF()}
		}
		return tuple{n, iface{}}
	}
	nativeHooks["*interp.memHandle.ReadAt"] = func(fr *frame, recv any, args []value) value {
		h := recv.(*memHandle)
		if h == nil {
			return tuple{0, fr.newError("invalid argument")}
		}
		if h.closed {
			return tuple{0, fr.newError("read " + h.f.name + ": file already closed")}
		}
		if fr.fsFault("readat") {
			return tuple{0, fr.fsErr("read", h.f.name)}
		}
		p := args[0].([]value)
		off := int(fr.concInt(args[1]))
		if off < 0 {
			return tuple{0, fr.newError("readat " + h.f.name + ": negative offset")}
		}
		n := 0
		for n < len(p) && off+n < len(h.f.data) {
			fr.i.setCell(&p[n], h.f.data[off+n])
			n++
		}
		if n < len(p) {
			return tuple{n, fr.ioEOF()}
		}
		return tuple{n, iface{}}
	}
	nativeHooks["*interp.memHandle.ReadFrom"] = func(fr *frame, recv any, args []value) value {
		// the portable path of (*os.File).ReadFrom: io.Copy through a wrapper without ReadFrom
		return fr.i.callByName(fr, "os.genericReadFrom", []value{native{v: recv.(*memHandle)}, args[0]})
	}
	nativeHooks["*interp.memHandle.Close"] = func(fr *frame, recv any, args []value) value {
		h := recv.(*memHandle)
		if h == nil {
			return fr.newError("invalid argument")
		}
		if h.closed {
			return fr.newError("close " + h.f.name + ": file already closed")
		}
		h.closed = true
		if fr.fsFault("close") {
			return fr.fsErr("close", h.f.name)
		}
		return iface{}
	}
	nativeHooks["*interp.memHandle.Name"] = func(fr *frame, recv any, args []value) value {
		h := recv.(*memHandle)
		if h == nil {
			panic(rtPanic("invalid memory address or nil pointer dereference"))
		}
		return h.f.name
	}

	// harness-visible helpers
	reg(vpPath+".LiveFiles", func(fr *frame, args []value) value {
		n := 0
		for _, f := range fr.i.fs.files {
			if !f.removed {
				n++
			}
		}
		return n
	})
	reg(vpPath+".TempDir", func(fr *frame, args []value) value { return "/vp-tmp" })
	reg(vpPath+".FaultInjection", func(fr *frame, args []value) value {
		fr.i.fs.faultsOn = true
		fr.i.fs.maxFaults = int(asInt64(args[0]))
		return nil
	})
	reg(vpPath+".Faults", func(fr *frame, args []value) value { return fr.i.fs.faults })
	reg(vpPath+".FaultedOn", func(fr *frame, args []value) value {
		op := concStr(fr, args[0], "vp.FaultedOn")
		for _, l := range fr.i.fs.log {
			if l == op {
				return true
			}
		}
		return false
	})
	_ = types.Typ
}
