package interp

import (
	"go/types"
	"testing"

	"verif/engine/smt"
)

func TestTableTermBool(t *testing.T) {
	i := &interpreter{ctx: smt.NewCtx()}
	fr := &frame{i: i}
	elems := make([]value, 256)
	for k := range elems {
		elems[k] = k <= 10
	}
	x := i.ctx.Var("x", 8)
	idx := i.ctx.Zext(x, 64)
	tt, ok := fr.tableTerm(elems, types.Bool, idx)
	if !ok {
		t.Fatal("no term")
	}
	for v := 0; v < 256; v++ {
		got := i.ctx.Eval(tt, map[*smt.Term]uint64{x: uint64(v)})
		if (got == 1) != (v <= 10) {
			t.Fatalf("v=%d got=%d term=%s", v, got, tt)
		}
	}
	// int table
	for k := range elems {
		elems[k] = int8(-1)
		if k >= '0' && k <= '9' {
			elems[k] = int8(k - '0')
		}
	}
	tt, ok = fr.tableTerm(elems, types.Int8, idx)
	for v := 0; v < 256; v++ {
		got := i.ctx.Eval(tt, map[*smt.Term]uint64{x: uint64(v)})
		want := uint64(0xff)
		if v >= '0' && v <= '9' {
			want = uint64(v - '0')
		}
		if got != want {
			t.Fatalf("v=%d got=%d want %d", v, got, want)
		}
	}
}
