package interp

// Write-effect confinement (C06): after the harness marks the WAF as shared, every store to a
// memory cell that was reachable from the marked roots (or from package-level variables) at
// that moment is reported unless a mutex is held or the store is an atomic / sync.Pool /
// sync.Map operation.  No such store => no write/write or read/write race on WAF-shared memory
// under any interleaving of transactions.

import (
	"fmt"
	"strings"
	"unsafe"

	"golang.org/x/tools/go/ssa"
)

type sharedSet struct {
	cells map[*value]bool
	maps  map[*omap]bool
	seen  map[unsafe.Pointer]bool
	n     int
}

func (i *interpreter) markShared(roots []value) {
	s := &sharedSet{cells: map[*value]bool{}, maps: map[*omap]bool{}, seen: map[unsafe.Pointer]bool{}}
	for _, r := range roots {
		s.walk(r)
	}
	for _, cell := range i.globals {
		s.addCell(cell)
	}
	i.shared = s
}

func (s *sharedSet) addCell(p *value) {
	if p == nil || s.cells[p] {
		return
	}
	s.cells[p] = true
	s.n++
	s.walk(*p)
}

func (s *sharedSet) walk(v value) {
	switch x := v.(type) {
	case *value:
		s.addCell(x)
	case []value:
		if cap(x) == 0 {
			return
		}
		full := x[:cap(x)]
		key := unsafe.Pointer(&full[0])
		if s.seen[key] {
			// a longer view of the same backing array may still add cells; walk by cell
		}
		s.seen[key] = true
		for k := range full {
			s.addCell(&full[k])
		}
	case structure:
		for k := range x {
			s.addCell(&x[k])
		}
	case array:
		for k := range x {
			s.addCell(&x[k])
		}
	case iface:
		s.walk(x.v)
	case *omap:
		if x == nil || s.maps[x] {
			return
		}
		s.maps[x] = true
		for _, e := range x.entries {
			s.walk(e.key)
			s.addCell(&e.val)
		}
	case *closure:
		if x != nil {
			for _, e := range x.Env {
				s.walk(e)
			}
		}
	case *symstr:
		for k := range x.b {
			s.addCell(&x.b[k])
		}
	case tuple:
		for _, e := range x {
			s.walk(e)
		}
	}
}

// sharedStore is called for every store; reports a confinement violation.
func (i *interpreter) sharedStore(addr *value) {
	if i.shared == nil || i.lockDepth > 0 || i.inSync > 0 || i.initing > 0 {
		return
	}
	if i.shared.cells[addr] {
		i.reportShared("store")
	}
}

func (i *interpreter) sharedMapWrite(m *omap) {
	if i.shared == nil || i.lockDepth > 0 || i.inSync > 0 || i.initing > 0 {
		return
	}
	if i.shared.maps[m] {
		i.reportShared("map update")
	}
}

func (i *interpreter) reportShared(kind string) {
	where := "?"
	if i.curFn != nil {
		where = i.curFn.String()
		// the harness's own bookkeeping (functions and methods named vp*/Vp*) is not WAF state
		n := i.curFn.Name()
		if len(n) >= 2 && (n[:2] == "vp" || n[:2] == "Vp") {
			return
		}
		if recv := i.curFn.Signature.Recv(); recv != nil {
			rs := recv.Type().String()
			if k := strings.LastIndex(rs, "."); k >= 0 && len(rs) > k+3 && (rs[k+1:k+3] == "vp" || rs[k+1:k+3] == "Vp") {
				return
			}
		}
		if p := i.curFn.Parent(); p != nil {
			pn := p.Name()
			if len(pn) >= 2 && (pn[:2] == "vp" || pn[:2] == "Vp") {
				return
			}
		}
	}
	msg := fmt.Sprintf("unsynchronised %s to WAF-shared memory in %s", kind, where)
	i.ex.violationEngineOnly("assert", msg, where)
}

var _ = (*ssa.Function)(nil)
