package interp

// Bounded symbolic model of RE2 matching: for a concrete pattern and a string of concrete
// length with symbolic (ASCII) bytes, acceptance is encoded as a position-indexed NFA run over
// the program produced by regexp/syntax's own compiler.

import (
	"fmt"
	"regexp"
	"regexp/syntax"
	"sync"

	"verif/engine/smt"
)

type rxClosureEntry struct {
	target int
	masks  []syntax.EmptyOp // alternative sets of required empty-width conditions
}

type rxProg struct {
	prog    *syntax.Prog
	closure [][]rxClosureEntry // per pc: consuming / match instructions reachable through ε
	byteSet [][128]bool        // per consuming pc: accepted ASCII bytes
	numCap  int
}

var (
	rxProgMu    sync.Mutex
	rxProgCache = map[string]*rxProg{}
)

func compileRxProg(pattern string) (*rxProg, error) {
	rxProgMu.Lock()
	defer rxProgMu.Unlock()
	if p, ok := rxProgCache[pattern]; ok {
		return p, nil
	}
	re, err := syntax.Parse(pattern, syntax.Perl)
	if err != nil {
		return nil, err
	}
	numCap := re.MaxCap()
	re = re.Simplify()
	prog, err := syntax.Compile(re)
	if err != nil {
		return nil, err
	}
	if len(prog.Inst) > 600 {
		return nil, fmt.Errorf("regex program too large for the symbolic model (%d instructions)", len(prog.Inst))
	}
	rp := &rxProg{prog: prog, numCap: numCap}
	rp.closure = make([][]rxClosureEntry, len(prog.Inst))
	rp.byteSet = make([][128]bool, len(prog.Inst))
	for pc := range prog.Inst {
		in := &prog.Inst[pc]
		switch in.Op {
		case syntax.InstRune, syntax.InstRune1, syntax.InstRuneAny, syntax.InstRuneAnyNotNL:
			for b := 0; b < 128; b++ {
				rp.byteSet[pc][b] = in.MatchRune(rune(b))
			}
		}
	}
	for pc := range prog.Inst {
		rp.closure[pc] = rp.computeClosure(pc)
	}
	rxProgCache[pattern] = rp
	return rp, nil
}

// computeClosure: DFS over ε-edges from pc collecting, per consuming/match target, the minimal
// sets of empty-width flags that must hold.
func (rp *rxProg) computeClosure(start int) []rxClosureEntry {
	type key struct {
		pc   int
		mask syntax.EmptyOp
	}
	seen := map[key]bool{}
	res := map[int][]syntax.EmptyOp{}
	var order []int
	var dfs func(pc int, mask syntax.EmptyOp)
	dfs = func(pc int, mask syntax.EmptyOp) {
		k := key{pc, mask}
		if seen[k] {
			return
		}
		seen[k] = true
		in := &rp.prog.Inst[pc]
		switch in.Op {
		case syntax.InstAlt, syntax.InstAltMatch:
			dfs(int(in.Out), mask)
			dfs(int(in.Arg), mask)
		case syntax.InstNop, syntax.InstCapture:
			dfs(int(in.Out), mask)
		case syntax.InstEmptyWidth:
			dfs(int(in.Out), mask|syntax.EmptyOp(in.Arg))
		case syntax.InstFail:
		default: // consuming or match
			if _, ok := res[pc]; !ok {
				order = append(order, pc)
			}
			// keep only minimal masks
			for _, m := range res[pc] {
				if m&mask == m {
					return // an existing weaker requirement subsumes this one
				}
			}
			var kept []syntax.EmptyOp
			for _, m := range res[pc] {
				if m&mask != mask {
					kept = append(kept, m)
				}
			}
			res[pc] = append(kept, mask)
		}
	}
	dfs(start, 0)
	var out []rxClosureEntry
	for _, pc := range order {
		out = append(out, rxClosureEntry{target: pc, masks: res[pc]})
	}
	return out
}

func isWordByte(c *smt.Ctx, b *smt.Term) *smt.Term {
	in := func(lo, hi byte) *smt.Term {
		return c.And(c.Bin(smt.OpUle, c.BV(uint64(lo), 8), b), c.Bin(smt.OpUle, b, c.BV(uint64(hi), 8)))
	}
	return c.Or(c.Or(in('a', 'z'), in('A', 'Z')), c.Or(in('0', '9'), c.Eq(b, c.BV('_', 8))))
}

func byteSetTerm(c *smt.Ctx, set *[128]bool, b *smt.Term) *smt.Term {
	res := c.False
	for lo := 0; lo < 128; {
		if !set[lo] {
			lo++
			continue
		}
		hi := lo
		for hi+1 < 128 && set[hi+1] {
			hi++
		}
		var t *smt.Term
		if lo == hi {
			t = c.Eq(b, c.BV(uint64(lo), 8))
		} else {
			t = c.And(c.Bin(smt.OpUle, c.BV(uint64(lo), 8), b), c.Bin(smt.OpUle, b, c.BV(uint64(hi), 8)))
		}
		res = c.Or(res, t)
		lo = hi + 1
	}
	return res
}

// rxMatchTerm returns the term "pattern matches somewhere in s" (unanchored search semantics of
// MatchString).  All bytes of s must be ASCII on the current path.
func (fr *frame) rxMatchTerm(rp *rxProg, bytes []*smt.Term) *smt.Term {
	c := fr.i.ctx
	n := len(bytes)
	prog := rp.prog
	cur := make([]*smt.Term, len(prog.Inst))
	for k := range cur {
		cur[k] = c.False
	}
	matched := c.False
	for i := 0; i <= n; i++ {
		// empty-width flag terms at position i
		var flag [6]*smt.Term
		flag[0] = c.Bool(i == 0) // EmptyBeginLine
		if i > 0 {
			flag[0] = c.Eq(bytes[i-1], c.BV('\n', 8))
		}
		flag[1] = c.Bool(i == n) // EmptyEndLine
		if i < n {
			flag[1] = c.Eq(bytes[i], c.BV('\n', 8))
		}
		flag[2] = c.Bool(i == 0) // EmptyBeginText
		flag[3] = c.Bool(i == n) // EmptyEndText
		w1, w2 := c.False, c.False
		if i > 0 {
			w1 = isWordByte(c, bytes[i-1])
		}
		if i < n {
			w2 = isWordByte(c, bytes[i])
		}
		flag[4] = c.Not(c.Eq(w1, w2)) // EmptyWordBoundary
		flag[5] = c.Eq(w1, w2)        // EmptyNoWordBoundary
		maskTerm := func(m syntax.EmptyOp) *smt.Term {
			t := c.True
			for bit := 0; bit < 6; bit++ {
				if m&(1<<uint(bit)) != 0 {
					t = c.And(t, flag[bit])
				}
			}
			return t
		}
		// threads before consuming byte i: previous survivors plus a fresh start
		src := make([]*smt.Term, len(prog.Inst))
		copy(src, cur)
		src[prog.Start] = c.True
		cl := make([]*smt.Term, len(prog.Inst))
		for pc, st := range src {
			if st == nil || st == c.False {
				continue
			}
			for _, e := range rp.closure[pc] {
				cond := c.False
				for _, m := range e.masks {
					cond = c.Or(cond, maskTerm(m))
				}
				t := c.And(st, cond)
				if cl[e.target] == nil {
					cl[e.target] = t
				} else {
					cl[e.target] = c.Or(cl[e.target], t)
				}
			}
		}
		next := make([]*smt.Term, len(prog.Inst))
		for k := range next {
			next[k] = c.False
		}
		for pc, t := range cl {
			if t == nil || t == c.False {
				continue
			}
			in := &prog.Inst[pc]
			switch in.Op {
			case syntax.InstMatch:
				matched = c.Or(matched, t)
			case syntax.InstRune, syntax.InstRune1, syntax.InstRuneAny, syntax.InstRuneAnyNotNL:
				if i < n {
					bt := byteSetTerm(c, &rp.byteSet[pc], bytes[i])
					next[in.Out] = c.Or(next[in.Out], c.And(t, bt))
				}
			}
		}
		cur = next
	}
	return matched
}

// symBytesASCII returns the byte terms of a string value, after restricting the path to ASCII
// content (paths with a byte >= 0x80 are outside the model and are cut, with a counter).
func (fr *frame) symBytesASCII(v value, what string) []*smt.Term {
	c := fr.i.ctx
	n := strLen(v)
	out := make([]*smt.Term, n)
	ascii := c.True
	for i := 0; i < n; i++ {
		out[i] = fr.termOf(strByteAt(v, i))
		ascii = c.And(ascii, c.Bin(smt.OpUlt, out[i], c.BV(0x80, 8)))
	}
	if !fr.i.ex.branch(ascii) {
		sh := fr.i.ex.shared
		sh.mu.Lock()
		sh.Assumes["regex model: input restricted to ASCII bytes ("+what+"); paths with a byte >= 0x80 cut"]++
		sh.mu.Unlock()
		panic(pathEnd{"outside regex model (non-ASCII)"})
	}
	return out
}

func (fr *frame) rxMatchSym(re *regexp.Regexp, v value) value {
	rp, err := compileRxProg(re.String())
	if err != nil {
		panic(unsupported("regex model: " + err.Error()))
	}
	bytes := fr.symBytesASCII(v, "MatchString")
	return mkSymBool(fr.rxMatchTerm(rp, bytes))
}

func init() {
	nativeHooks["*regexp.Regexp.MatchString"] = func(fr *frame, recv any, args []value) value {
		if s, ok := args[0].(string); ok {
			return recv.(*regexp.Regexp).MatchString(s)
		}
		return fr.rxMatchSym(recv.(*regexp.Regexp), args[0])
	}
	// submatch queries: positions are not modelled symbolically; the input bytes are split into
	// their feasible concrete values (the harness bounds the alphabet) and the host regexp runs
	nativeHooks["*regexp.Regexp.FindStringSubmatchIndex"] = func(fr *frame, recv any, args []value) value {
		s := fr.concretizeString(args[0])
		m := recv.(*regexp.Regexp).FindStringSubmatchIndex(s)
		if m == nil {
			return []value(nil)
		}
		out := make([]value, len(m))
		for k, x := range m {
			out[k] = x
		}
		return out
	}
	nativeHooks["*regexp.Regexp.FindStringSubmatch"] = func(fr *frame, recv any, args []value) value {
		s := fr.concretizeString(args[0])
		m := recv.(*regexp.Regexp).FindStringSubmatch(s)
		if m == nil {
			return []value(nil)
		}
		out := make([]value, len(m))
		for k, x := range m {
			out[k] = x
		}
		return out
	}
	nativeHooks["*regexp.Regexp.Match"] = func(fr *frame, recv any, args []value) value {
		s := mkStr(args[0].([]value))
		if cs, ok := s.(string); ok {
			return recv.(*regexp.Regexp).MatchString(cs)
		}
		return fr.rxMatchSym(recv.(*regexp.Regexp), s)
	}
}

// concretizeString splits a symbolic string into its feasible concrete values (one path each).
func (fr *frame) concretizeString(v value) string {
	if s, ok := v.(string); ok {
		return s
	}
	ss := v.(*symstr)
	b := make([]byte, len(ss.b))
	for i, e := range ss.b {
		switch e := e.(type) {
		case uint8:
			b[i] = e
		case *sym:
			b[i] = byte(fr.i.ex.concretize(e.t))
		}
	}
	return string(b)
}
