package interp

// Pure-call summarisation: a side-effect-free function applied to symbolic scalars is explored
// locally (all of its control paths) and its result merged into one ite term, so that small
// predicates (ValidHex, unicode.IsSpace, utf8 decoding, ...) do not fork the caller's path.
// Table lookups at a symbolic index become piecewise-affine terms.

import (
	"go/token"
	"go/types"

	"golang.org/x/tools/go/ssa"
	"verif/engine/smt"
)

type localFail struct{ why string }

type localMode struct {
	parent  *localMode
	prefix  []bool
	pos     int
	decs    []bool
	conds   []*smt.Term
	decided map[*smt.Term]bool
	pending [][]bool
}

const maxLocalPaths = 32

func hasSym(args []value) bool {
	for _, a := range args {
		switch x := a.(type) {
		case *sym, *symstr:
			return true
		case []value:
			for _, e := range x {
				if _, ok := e.(*sym); ok {
					return true
				}
			}
		}
	}
	return false
}

// isPure: static check that fn cannot write memory visible to its caller, cannot panic
// explicitly, and only calls functions with the same property.
func (i *interpreter) isPure(fn *ssa.Function) bool {
	if v, ok := i.pure[fn]; ok {
		return v
	}
	i.pure[fn] = false // cycles are impure
	v := i.computePure(fn)
	i.pure[fn] = v
	return v
}

func localAlloc(v ssa.Value) bool {
	for {
		switch x := v.(type) {
		case *ssa.Alloc:
			return !x.Heap
		case *ssa.FieldAddr:
			v = x.X
		case *ssa.IndexAddr:
			// only arrays held in local allocs (slices may alias caller memory)
			if _, ok := x.X.Type().Underlying().(*types.Pointer); !ok {
				return false
			}
			v = x.X
		default:
			return false
		}
	}
}

func (i *interpreter) computePure(fn *ssa.Function) bool {
	if fn.Blocks == nil || fn.Parent() != nil || len(fn.FreeVars) > 0 {
		return false
	}
	if _, ok := externals[fn.String()]; ok {
		return false
	}
	res := fn.Signature.Results()
	if res.Len() == 0 {
		return false
	}
	for k := 0; k < res.Len(); k++ {
		b, ok := res.At(k).Type().Underlying().(*types.Basic)
		if !ok || b.Info()&(types.IsBoolean|types.IsInteger) == 0 {
			return false
		}
	}
	n := 0
	for _, b := range fn.Blocks {
		for _, in := range b.Instrs {
			n++
			switch x := in.(type) {
			case *ssa.BinOp, *ssa.Phi, *ssa.If, *ssa.Jump, *ssa.Return, *ssa.Convert, *ssa.ChangeType,
				*ssa.Extract, *ssa.Index, *ssa.IndexAddr, *ssa.Field, *ssa.FieldAddr, *ssa.Slice, *ssa.DebugRef,
				*ssa.Range, *ssa.Next:
			case *ssa.UnOp:
				if x.Op == token.ARROW {
					return false
				}
			case *ssa.Alloc:
				if x.Heap {
					return false
				}
			case *ssa.Store:
				if !localAlloc(x.Addr) {
					return false
				}
			case *ssa.Call:
				if x.Call.IsInvoke() {
					return false
				}
				switch c := x.Call.Value.(type) {
				case *ssa.Builtin:
					switch c.Name() {
					case "len", "cap", "min", "max":
					default:
						return false
					}
				case *ssa.Function:
					if !i.isPure(c) {
						return false
					}
				default:
					return false
				}
			default:
				return false
			}
		}
	}
	return n < 400
}

// summarize explores fn locally and merges its results; ok=false means "call it normally".
func (i *interpreter) summarize(caller *frame, callpos token.Pos, fn *ssa.Function, args []value) (res value, ok bool) {
	ex := i.ex
	type leaf struct {
		cond *smt.Term
		val  value
	}
	var leaves []leaf
	lm := &localMode{parent: ex.local}
	ex.local = lm
	savedSteps := i.steps
	savedJournal := len(i.journal)
	defer func() {
		ex.local = lm.parent
		if p := recover(); p != nil {
			if _, isFail := p.(localFail); isFail {
				if lm.parent != nil {
					// abort the enclosing local explorations too: nested retries would multiply
					panic(p)
				}
				res, ok = nil, false
				i.steps = savedSteps
				i.noSummary[fn] = true
				return
			}
			if _, isTP := p.(targetPanic); isTP {
				// a path of the callee panics: let the normal (forking) execution report it
				res, ok = nil, false
				i.steps = savedSteps
				return
			}
			panic(p)
		}
	}()
	lm.pending = [][]bool{nil}
	for len(lm.pending) > 0 {
		n := len(lm.pending) - 1
		lm.prefix = lm.pending[n]
		lm.pending = lm.pending[:n]
		lm.pos = 0
		lm.decs = lm.decs[:0]
		lm.conds = lm.conds[:0]
		lm.decided = map[*smt.Term]bool{}
		if len(leaves) >= maxLocalPaths {
			panic(localFail{"too many local paths"})
		}
		v := i.callSSA(caller, callpos, fn, args, nil)
		c := ex.ctx.True
		for _, t := range lm.conds {
			c = ex.ctx.And(c, t)
		}
		leaves = append(leaves, leaf{c, v})
	}
	if len(i.journal) != savedJournal {
		// defensive: a "pure" function must not have journalled stores to pre-existing memory;
		// stores to its own locals are journalled too, so this is only a sanity bound
	}
	// merge
	merge := func(get func(v value) value) (value, bool) {
		last := get(leaves[len(leaves)-1].val)
		allSame := true
		for _, l := range leaves {
			a := get(l.val)
			switch a.(type) {
			case *sym:
				allSame = false
			default:
				if _, _, isInt := intBits(a); isInt {
					_, x, _ := intBits(a)
					_, y, ok2 := intBits(last)
					if !ok2 || x != y {
						allSame = false
					}
				} else if b, isB := a.(bool); isB {
					if lb, ok2 := last.(bool); !ok2 || lb != b {
						allSame = false
					}
				} else {
					return nil, false
				}
			}
		}
		if allSame {
			return last, true
		}
		k := valueKind(last)
		t := i.termOf(last)
		for j := len(leaves) - 2; j >= 0; j-- {
			t = ex.ctx.Ite(leaves[j].cond, i.termOf(get(leaves[j].val)), t)
		}
		if k == types.Bool {
			return mkSymBool(t), true
		}
		return mkSymInt(t, k), true
	}
	if tup, isTup := leaves[0].val.(tuple); isTup {
		out := make(tuple, len(tup))
		for k := range tup {
			kk := k
			v, ok := merge(func(v value) value { return v.(tuple)[kk] })
			if !ok {
				return nil, false
			}
			out[k] = v
		}
		return out, true
	}
	return merge(func(v value) value { return v })
}

// localBranch is branch() while summarising.
func (ex *explorer) localBranch(cond *smt.Term) bool {
	lm := ex.local
	if v, ok := ex.decided[cond]; ok {
		return v
	}
	for l := lm; l != nil; l = l.parent {
		if v, ok := l.decided[cond]; ok {
			return v
		}
	}
	var b bool
	if lm.pos < len(lm.prefix) {
		b = lm.prefix[lm.pos]
	} else {
		b = true
		alt := make([]bool, len(lm.decs)+1)
		copy(alt, lm.decs)
		alt[len(lm.decs)] = false
		lm.pending = append(lm.pending, alt)
		if len(lm.pending) > maxLocalPaths {
			panic(localFail{"too many local paths"})
		}
	}
	lm.pos++
	lm.decs = append(lm.decs, b)
	c := cond
	if !b {
		c = ex.ctx.Not(cond)
	}
	lm.conds = append(lm.conds, c)
	lm.decided[c] = true
	lm.decided[ex.ctx.Not(c)] = false
	return b
}

// tableTerm: elems[idx] for a table of concrete integers, as a piecewise-affine term.
func (fr *frame) tableTerm(elems []value, k types.BasicKind, idx *smt.Term) (*smt.Term, bool) {
	c := fr.i.ctx
	w := kindWidth(k)
	n := len(elems)
	vals := make([]uint64, n)
	for j, e := range elems {
		switch x := e.(type) {
		case bool:
			if x {
				vals[j] = 1
			}
		default:
			_, b, ok := intBits(e)
			if !ok {
				return nil, false
			}
			vals[j] = b
		}
	}
	isBool := w == 0
	mask := ^uint64(0)
	if isBool {
		mask = 1
	}
	if !isBool && w < 64 {
		mask = (uint64(1) << w) - 1
	}
	type seg struct {
		lo, hi int
		slope  uint64
		base   uint64 // value at lo
	}
	var segs []seg
	for lo := 0; lo < n; {
		hi := lo
		slope := uint64(0)
		if lo+1 < n {
			switch {
			case vals[lo+1]&mask == vals[lo]&mask:
				slope = 0
				hi = lo + 1
			case !isBool && vals[lo+1]&mask == (vals[lo]+1)&mask:
				slope = 1
				hi = lo + 1
			}
			for hi > lo && hi+1 < n && vals[hi+1]&mask == (vals[hi]+slope)&mask {
				hi++
			}
		}
		segs = append(segs, seg{lo, hi, slope, vals[lo]})
		lo = hi + 1
	}
	if len(segs) > 24 {
		return nil, false
	}
	f := func(s seg) *smt.Term {
		if isBool {
			return c.Bool(s.base&1 == 1)
		}
		if s.slope == 0 {
			return c.BV(s.base, w)
		}
		var iw *smt.Term
		if w < 64 {
			iw = c.Extract(idx, int(w)-1, 0)
		} else {
			iw = idx
		}
		return c.Bin(smt.OpAdd, iw, c.BV(s.base-uint64(s.lo), w))
	}
	res := f(segs[len(segs)-1])
	for j := len(segs) - 2; j >= 0; j-- {
		res = c.Ite(c.Bin(smt.OpUle, idx, c.BV(uint64(segs[j].hi), 64)), f(segs[j]), res)
	}
	return res, true
}
