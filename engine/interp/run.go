package interp

import (
	"fmt"
	"go/token"
	"go/types"
	"os"
	"runtime/debug"
	"sort"
	"strings"
	"sync"

	"golang.org/x/tools/go/ssa"
	"verif/engine/smt"
)

// Program wraps the SSA program shared (read-only) by all workers.
type Program struct {
	Prog *ssa.Program
}

// Run explores one harness exhaustively within cfg's budgets.
func Run(p *Program, cfg Config) *Shared {
	if cfg.Workers <= 0 {
		cfg.Workers = 1
	}
	if cfg.StepBudget == 0 {
		cfg.StepBudget = 20_000_000
	}
	if cfg.SolverMs == 0 {
		cfg.SolverMs = 10000
	}
	if cfg.Solver == "" {
		cfg.Solver = "z3"
	}
	sh := &Shared{cfg: cfg, internTab: map[string]string{}, PathsEnded: map[string]int64{},
		Violations: map[string]*Violation{}, Witnesses: map[string]*Witness{}, FuncSteps: map[string]int64{},
		Stubs: map[string]int64{}, Assumes: map[string]int64{}}
	sh.cond = sync.NewCond(&sh.mu)
	sh.work = append(sh.work, &workItem{})

	entryFn := lookupEntry(p.Prog, cfg.Entry)
	if entryFn == nil {
		sh.Inconclusive = append(sh.Inconclusive, "harness entry not found: "+cfg.Entry)
		return sh
	}

	var wg sync.WaitGroup
	for w := 0; w < cfg.Workers; w++ {
		wg.Add(1)
		go func(w int) {
			defer wg.Done()
			runWorker(p, sh, entryFn, w)
		}(w)
	}
	wg.Wait()
	return sh
}

func lookupEntry(prog *ssa.Program, entry string) *ssa.Function {
	dot := strings.LastIndex(entry, ".")
	pkg := prog.ImportedPackage(entry[:dot])
	if pkg == nil {
		return nil
	}
	return pkg.Func(entry[dot+1:])
}

func newInterpreter(p *Program, sh *Shared) *interpreter {
	i := &interpreter{
		prog:       p.Prog,
		globals:    make(map[*ssa.Global]*value),
		inited:     make(map[*ssa.Package]bool),
		sizes:      &types.StdSizes{WordSize: 8, MaxAlign: 8},
		ctx:        smt.NewCtx(),
		funcByNm:   map[string]*ssa.Function{},
		stepBudget: sh.cfg.StepBudget,
		funcsSeen:  map[*ssa.Function]int64{},
		pure:       map[*ssa.Function]bool{},
		pools:      map[*value][]value{},
		syncMaps:   map[*value]*omap{},
		noSummary:  map[*ssa.Function]bool{},
		setupCache: map[string]value{},
		fnInfos:    map[*ssa.Function]*fnInfo{},
		trace:      sh.cfg.Trace,
	}
	if rt := p.Prog.ImportedPackage("runtime"); rt != nil {
		if t := rt.Type("errorString"); t != nil {
			i.runtimeErrorT = t.Object().Type()
		}
	}
	return i
}

func runWorker(p *Program, sh *Shared, entry *ssa.Function, w int) {
	i := newInterpreter(p, sh)
	solver, err := smt.NewSolver(i.ctx, sh.cfg.Solver, sh.cfg.SolverMs)
	if err != nil {
		sh.inconclusive("cannot start solver: " + err.Error())
		return
	}
	defer solver.Close()
	ex := &explorer{shared: sh, i: i, ctx: i.ctx, solver: solver}
	i.ex = ex
	defer func() {
		sh.mu.Lock()
		sh.Queries += int64(solver.Queries)
		sh.EvalWitness += ex.evalWitness
		sh.SatN += int64(solver.SatN)
		sh.UnsatN += int64(solver.UnsatN)
		sh.UnknownN += int64(solver.UnknownN)
		sh.SolverTime += solver.Time.Seconds()
		for f, n := range i.funcsSeen {
			sh.FuncSteps[f.String()] += n
		}
		sh.mu.Unlock()
	}()
	for {
		it := sh.pop()
		if it == nil {
			return
		}
		runPath(i, ex, sh, entry, it)
		sh.done()
	}
}

func runPath(i *interpreter, ex *explorer, sh *Shared, entry *ssa.Function, it *workItem) {
	ex.resetPath(it)
	i.strCells = map[uintptr]*strCell{}
	i.strCellOf = map[*value]string{}
	i.noSummary = map[*ssa.Function]bool{}
	i.lockDepth = 0
	i.shared = nil
	i.inSync = 0
	i.clock = 0
	i.fs = newMemFS()
	i.steps = 0
	i.depth = 0
	i.journal = i.journal[:0]
	reason := "completed"
	func() {
		defer func() {
			p := recover()
			if p == nil {
				return
			}
			switch p := p.(type) {
			case pathEnd:
				reason = p.reason
			case targetPanic:
				reason = "panic"
				msg := panicMessage(ex, p)
				ex.violation("panic", msg, p.pos)
			case unsupportedErr:
				reason = "unsupported"
				sh.inconclusive("unsupported: " + p.msg)
			case boundErr:
				reason = "bound"
				sh.inconclusive("BOUND-EXCEEDED: " + p.msg)
			case engineFault:
				reason = "engine-fault"
				sh.inconclusive("engine fault: " + p.msg + " in " + p.where)
			default:
				reason = "engine-fault"
				sh.inconclusive(fmt.Sprintf("engine fault: %v\n%s", p, debug.Stack()))
			}
		}()
		// make sure the harness package itself is initialised outside the journal
		i.ensureInit(entry.Pkg)
		i.journalOn = true
		i.call(nil, token.NoPos, entry, nil)
	}()
	i.journalOn = false
	i.rollback()
	sh.mu.Lock()
	sh.Paths++
	sh.Decisions += int64(len(ex.decisions))
	sh.Steps += i.steps
	if i.steps > sh.MaxPathSteps {
		sh.MaxPathSteps = i.steps
	}
	sh.PathsEnded[reason]++
	over := sh.cfg.PathBudget > 0 && sh.Paths > sh.cfg.PathBudget
	sh.mu.Unlock()
	if over {
		sh.inconclusive(fmt.Sprintf("BOUND-EXCEEDED: path budget %d exceeded", sh.cfg.PathBudget))
	}
	if sh.cfg.Trace {
		fmt.Fprintf(os.Stderr, "path end: %s decisions=%d steps=%d\n", reason, len(ex.decisions), i.steps)
	}
}

// panicMessage renders "panic in <func>: <value>" — the function, not the line, identifies the
// call site so that known-findings survive unrelated edits.
func panicMessage(ex *explorer, p targetPanic) string {
	var v string
	switch x := p.v.(type) {
	case rtError:
		v = "runtime error: " + rtCategory(string(x))
	case iface:
		v = ex.describePanicValue(x)
	default:
		v = ex.showValue(p.v)
	}
	// strip volatile numbers from run-time error texts
	return fmt.Sprintf("panic in %s: %s", p.where, v)
}

func (ex *explorer) describePanicValue(x iface) string {
	if x.t == nil {
		return "nil"
	}
	// error or Stringer: call the method through the interpreter
	for _, m := range []string{"Error", "String"} {
		if f := ex.i.methodOf(x.t, m); f != nil {
			var out string
			func() {
				defer func() {
					if r := recover(); r != nil {
						out = fmt.Sprintf("<%s>", x.t)
					}
				}()
				out = ex.showValue(ex.i.call(nil, token.NoPos, f, []value{x.v}))
			}()
			return out
		}
	}
	return ex.showValue(x.v)
}

// TopFuncs lists the repo functions executed, by instruction count.
func (s *Shared) TopFuncs(prefix string) []string {
	type kv struct {
		k string
		v int64
	}
	var l []kv
	for k, v := range s.FuncSteps {
		if prefix == "" || strings.Contains(k, prefix) {
			l = append(l, kv{k, v})
		}
	}
	sort.Slice(l, func(a, b int) bool { return l[a].v > l[b].v })
	var out []string
	for _, e := range l {
		out = append(out, fmt.Sprintf("%s:%d", e.k, e.v))
	}
	return out
}

// normDigits replaces digit runs by N so that one defect is one finding whatever the length.
func normDigits(s string) string {
	var sb strings.Builder
	in := false
	for _, c := range s {
		if c >= '0' && c <= '9' {
			if !in {
				sb.WriteByte('N')
			}
			in = true
			continue
		}
		in = false
		sb.WriteRune(c)
	}
	return sb.String()
}

// rtCategory keeps the stable part of a run-time error text ("index out of range",
// "slice bounds out of range", ...): the numbers differ between inputs and between the engine
// and the native run time.
func rtCategory(s string) string {
	for _, cut := range []string{" [", " with length", " (method", " (call"} {
		if i := strings.Index(s, cut); i >= 0 {
			s = s[:i]
		}
	}
	return normDigits(s)
}
