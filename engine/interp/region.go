package interp

// Region merging (if-conversion generalised): when a branch on a symbolic condition opens a
// side-effect-free region of the CFG that re-converges at the branch's immediate
// post-dominator, the region is explored locally and the phi-nodes of the join block are
// merged into ite terms instead of forking the whole path.

import (
	"go/token"
	"go/types"

	"golang.org/x/tools/go/ssa"
	"verif/engine/smt"
)

type regionInfo struct {
	ok   bool
	join *ssa.BasicBlock
}

type fnInfo struct {
	ipdom   map[*ssa.BasicBlock]*ssa.BasicBlock
	regions map[*ssa.BasicBlock]regionInfo
}

// postDominators computes immediate post-dominators (nil = virtual exit).
func postDominators(fn *ssa.Function) map[*ssa.BasicBlock]*ssa.BasicBlock {
	n := len(fn.Blocks)
	// pdom sets as bitsets over block indices; exit = index n
	words := (n + 1 + 63) / 64
	full := make([]uint64, words)
	for i := 0; i <= n; i++ {
		full[i/64] |= 1 << (uint(i) % 64)
	}
	sets := make([][]uint64, n+1)
	for i := 0; i <= n; i++ {
		sets[i] = append([]uint64{}, full...)
	}
	exit := make([]uint64, words)
	exit[n/64] |= 1 << (uint(n) % 64)
	sets[n] = exit
	changed := true
	for changed {
		changed = false
		for bi := n - 1; bi >= 0; bi-- {
			b := fn.Blocks[bi]
			nw := append([]uint64{}, full...)
			if len(b.Succs) == 0 {
				copy(nw, sets[n])
			} else {
				for _, s := range b.Succs {
					for w := range nw {
						nw[w] &= sets[s.Index][w]
					}
				}
			}
			nw[bi/64] |= 1 << (uint(bi) % 64)
			same := true
			for w := range nw {
				if nw[w] != sets[bi][w] {
					same = false
				}
			}
			if !same {
				sets[bi] = nw
				changed = true
			}
		}
	}
	count := func(s []uint64) int {
		c := 0
		for _, w := range s {
			for ; w != 0; w &= w - 1 {
				c++
			}
		}
		return c
	}
	res := map[*ssa.BasicBlock]*ssa.BasicBlock{}
	for bi, b := range fn.Blocks {
		// ipdom = the strict post-dominator with the largest pdom set (closest)
		best := -1
		bestN := -1
		for j := 0; j < n; j++ {
			if j == bi || sets[bi][j/64]&(1<<(uint(j)%64)) == 0 {
				continue
			}
			if c := count(sets[j]); c > bestN {
				best, bestN = j, c
			}
		}
		if best >= 0 {
			res[b] = fn.Blocks[best]
		}
	}
	return res
}

func (i *interpreter) fnInfoOf(fn *ssa.Function) *fnInfo {
	if fi, ok := i.fnInfos[fn]; ok {
		return fi
	}
	fi := &fnInfo{ipdom: postDominators(fn), regions: map[*ssa.BasicBlock]regionInfo{}}
	i.fnInfos[fn] = fi
	return fi
}

func (i *interpreter) speculable(in ssa.Instruction) bool {
	switch x := in.(type) {
	case *ssa.BinOp, *ssa.Phi, *ssa.If, *ssa.Jump, *ssa.Convert, *ssa.ChangeType, *ssa.ChangeInterface,
		*ssa.Extract, *ssa.Index, *ssa.IndexAddr, *ssa.Field, *ssa.FieldAddr, *ssa.Slice, *ssa.DebugRef,
		*ssa.Lookup, *ssa.MakeInterface:
		return true
	case *ssa.UnOp:
		return x.Op != token.ARROW
	case *ssa.TypeAssert:
		return true
	case *ssa.Call:
		if x.Call.IsInvoke() {
			return false
		}
		switch c := x.Call.Value.(type) {
		case *ssa.Builtin:
			switch c.Name() {
			case "len", "cap", "min", "max":
				return true
			}
		case *ssa.Function:
			return i.isPure(c)
		}
	}
	return false
}

func (i *interpreter) regionOf(b *ssa.BasicBlock) regionInfo {
	fi := i.fnInfoOf(b.Parent())
	if r, ok := fi.regions[b]; ok {
		return r
	}
	r := regionInfo{}
	defer func() { fi.regions[b] = r }()
	J := fi.ipdom[b]
	if J == nil || J == b {
		return r
	}
	seen := map[*ssa.BasicBlock]bool{}
	var work []*ssa.BasicBlock
	for _, s := range b.Succs {
		if s != J {
			work = append(work, s)
		}
	}
	instrs := 0
	for len(work) > 0 {
		x := work[len(work)-1]
		work = work[:len(work)-1]
		if seen[x] {
			continue
		}
		seen[x] = true
		if len(seen) > 16 {
			return r
		}
		if len(x.Succs) == 0 {
			return r
		}
		for _, in := range x.Instrs {
			instrs++
			if !i.speculable(in) {
				return r
			}
		}
		if instrs > 200 {
			return r
		}
		for _, s := range x.Succs {
			if s != J && !seen[s] {
				work = append(work, s)
			}
		}
	}
	if seen[b] {
		// the branch is a loop header inside its own region: loop-carried state is handled by
		// ordinary forking
		return r
	}
	r = regionInfo{ok: true, join: J}
	return r
}

type regionLeaf struct {
	cond *smt.Term
	vals []value
}

// tryRegion attempts to merge the region opened by the If at the end of fr.block.
func (fr *frame) tryRegion(cond *smt.Term) bool {
	i := fr.i
	ex := i.ex
	b := fr.block
	ri := i.regionOf(b)
	if !ri.ok {
		return false
	}
	J := ri.join
	var phis []*ssa.Phi
	for _, in := range J.Instrs {
		p, ok := in.(*ssa.Phi)
		if !ok {
			break
		}
		phis = append(phis, p)
	}
	// snapshot of the environment (the region may overwrite loop-carried values)
	saved := make(map[ssa.Value]value, len(fr.env))
	for k, v := range fr.env {
		saved[k] = v
	}
	savedSteps := i.steps
	restore := func() {
		fr.env = saved
		fr.block = b
	}
	lm := &localMode{parent: ex.local}
	ex.local = lm
	ok := true
	var leaves []regionLeaf
	func() {
		defer func() {
			ex.local = lm.parent
			if p := recover(); p != nil {
				switch p.(type) {
				case localFail, targetPanic:
					ok = false
					return
				}
				panic(p)
			}
		}()
		lm.pending = [][]bool{nil}
		for len(lm.pending) > 0 {
			n := len(lm.pending) - 1
			lm.prefix = lm.pending[n]
			lm.pending = lm.pending[:n]
			lm.pos = 0
			lm.decs = lm.decs[:0]
			lm.conds = lm.conds[:0]
			lm.decided = map[*smt.Term]bool{}
			if len(leaves) >= maxLocalPaths {
				panic(localFail{"too many region paths"})
			}
			env := make(map[ssa.Value]value, len(saved)+8)
			for k, v := range saved {
				env[k] = v
			}
			fr.env = env
			succ := 1
			if ex.branch(cond) {
				succ = 0
			}
			fr.prevBlock, fr.block = b, b.Succs[succ]
			steps := 0
			for fr.block != J {
				nonPhis := fr.executePhis()
				i.steps += int64(len(nonPhis))
				steps += len(nonPhis)
				if steps > 5000 {
					panic(localFail{"region too long"})
				}
				for _, in := range nonPhis {
					if fr.visitInstr(in) == kReturn {
						panic(localFail{"return inside region"})
					}
				}
			}
			c := ex.ctx.True
			for _, t := range lm.conds {
				c = ex.ctx.And(c, t)
			}
			vals := make([]value, len(phis))
			if fr.phisDone {
				// a nested region with the same join has already merged the phis
				fr.phisDone = false
				for k, p := range phis {
					vals[k] = fr.env[p]
				}
			} else {
				pred := -1
				for k, p := range J.Preds {
					if p == fr.prevBlock {
						pred = k
					}
				}
				if pred < 0 {
					panic(localFail{"region left through an unknown edge"})
				}
				for k, p := range phis {
					vals[k] = fr.get(p.Edges[pred])
				}
			}
			leaves = append(leaves, regionLeaf{c, vals})
		}
	}()
	if !ok || len(leaves) == 0 {
		restore()
		i.steps = savedSteps
		return false
	}
	merged := make([]value, len(phis))
	for k := range phis {
		v, mok := fr.mergeValues(leaves, k)
		if !mok {
			restore()
			i.steps = savedSteps
			return false
		}
		merged[k] = v
	}
	fr.env = saved
	for k, p := range phis {
		fr.env[p] = merged[k]
	}
	fr.prevBlock, fr.block = b, J
	fr.phisDone = true
	i.regionsMerged++
	return true
}

func sameConcrete(a, b value) bool {
	switch x := a.(type) {
	case bool:
		y, ok := b.(bool)
		return ok && x == y
	case string:
		y, ok := b.(string)
		return ok && x == y
	case *value:
		y, ok := b.(*value)
		return ok && x == y
	case *sym:
		y, ok := b.(*sym)
		return ok && x.t == y.t
	case iface:
		y, ok := b.(iface)
		return ok && sameType(x.t, y.t) && (x.t == nil || sameConcrete(x.v, y.v))
	case *omap:
		y, ok := b.(*omap)
		return ok && x == y
	case *ssa.Function:
		y, ok := b.(*ssa.Function)
		return ok && x == y
	case *closure:
		y, ok := b.(*closure)
		return ok && x == y
	case []value:
		y, ok := b.([]value)
		if !ok || len(x) != len(y) || cap(x) != cap(y) {
			return false
		}
		return len(x) == 0 && x == nil == (y == nil) || cap(x) > 0 && &x[:1][0] == &y[:1][0]
	}
	if _, bx, ok := intBits(a); ok {
		_, by, ok2 := intBits(b)
		return ok2 && bx == by && valueKind(a) == valueKind(b)
	}
	return false
}

func isScalar(v value) bool {
	switch v.(type) {
	case bool, *sym:
		return true
	}
	_, _, ok := intBits(v)
	return ok
}

// mergeValues merges the k-th value of every leaf into one value.
func (fr *frame) mergeValues(leaves []regionLeaf, k int) (value, bool) {
	c := fr.i.ctx
	first := leaves[0].vals[k]
	all := true
	for _, l := range leaves[1:] {
		if !sameConcrete(first, l.vals[k]) {
			all = false
			break
		}
	}
	if all {
		return first, true
	}
	last := leaves[len(leaves)-1].vals[k]
	if isScalar(last) {
		kind := valueKind(last)

		t := fr.i.termOf(last)
		for j := len(leaves) - 2; j >= 0; j-- {
			v := leaves[j].vals[k]
			if !isScalar(v) || valueKind(v) != kind {
				return nil, false
			}
			t = c.Ite(leaves[j].cond, fr.i.termOf(v), t)
		}
		if kind == types.Bool {
			return mkSymBool(t), true
		}
		return mkSymInt(t, kind), true
	}
	if isStrVal(last) {
		n := strLen(last)
		for _, l := range leaves {
			if !isStrVal(l.vals[k]) || strLen(l.vals[k]) != n {
				return nil, false
			}
		}
		out := make([]value, n)
		for p := 0; p < n; p++ {
			t := fr.i.termOf(strByteAt(last, p))
			for j := len(leaves) - 2; j >= 0; j-- {
				t = c.Ite(leaves[j].cond, fr.i.termOf(strByteAt(leaves[j].vals[k], p)), t)
			}
			out[p] = mkSymInt(t, types.Uint8)
		}
		return mkStr(out), true
	}
	return nil, false
}
