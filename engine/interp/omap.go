package interp

import (
	"fmt"
	"go/types"
)

// omap is an insertion-ordered map.  Concrete keys are found through a canonical-key index;
// symbolic keys are compared against the existing keys by solver-decided equality (forking).
type omap struct {
	keyType types.Type
	entries []*mapEntry
	idx     map[any]*mapEntry
	advers  bool // iteration order is adversarial (explored as a symbolic permutation)
	hasSym  bool // some key is symbolic
}

type mapEntry struct {
	key value
	val value
	ck  any // canonical key (nil when symbolic)
}

func (i *interpreter) makeMap(kt types.Type, reserve int64) *omap {
	i.noteAlloc()
	return &omap{keyType: kt, idx: make(map[any]*mapEntry)}
}

// find returns the entry whose key equals k on the current path (forking when the answer
// depends on symbolic bytes).
func (fr *frame) mapFind(m *omap, k value) *mapEntry {
	if m == nil {
		return nil
	}
	ck, conc := canonKey(k)
	if conc && !m.hasSym {
		return m.idx[ck]
	}
	if conc {
		if e := m.idx[ck]; e != nil {
			return e
		}
	}
	// symbolic comparison against candidate entries
	for _, e := range m.entries {
		if conc && e.ck != nil {
			continue // both concrete and not found through the index
		}
		eq := fr.equals(m.keyType, e.key, k)
		switch b := eq.(type) {
		case bool:
			if b {
				return e
			}
		case *sym:
			if fr.i.ex.branch(b.t) {
				return e
			}
		}
	}
	return nil
}

func (fr *frame) mapLookup(m *omap, k value) (value, bool) {
	e := fr.mapFind(m, k)
	if e == nil {
		return nil, false
	}
	return e.val, true
}

func (fr *frame) mapInsert(m *omap, k, v value) {
	if m == nil {
		panic(rtPanic("assignment to entry in nil map"))
	}
	i := fr.i
	if i.shared != nil {
		i.sharedMapWrite(m)
	}
	if e := fr.mapFind(m, k); e != nil {
		i.setCell(&e.val, v)
		return
	}
	ck, conc := canonKey(k)
	e := &mapEntry{key: k, val: v}
	if conc {
		e.ck = ck
	}
	oldEntries, oldHasSym := m.entries, m.hasSym
	n := len(oldEntries)
	m.entries = append(oldEntries[:n:n], e)
	if conc {
		m.idx[ck] = e
	} else {
		m.hasSym = true
	}
	if i.journalOn {
		i.journalFn(func() {
			m.entries = oldEntries
			m.hasSym = oldHasSym
			if conc {
				delete(m.idx, ck)
			}
		})
	}
}

func (fr *frame) mapDelete(m *omap, k value) {
	e := fr.mapFind(m, k)
	if e == nil {
		return
	}
	fr.mapRemoveEntry(m, e)
}

func (fr *frame) mapRemoveEntry(m *omap, e *mapEntry) {
	i := fr.i
	if i.shared != nil {
		i.sharedMapWrite(m)
	}
	old := m.entries
	ne := make([]*mapEntry, 0, len(old))
	for _, x := range old {
		if x != e {
			ne = append(ne, x)
		}
	}
	m.entries = ne
	if e.ck != nil {
		delete(m.idx, e.ck)
	}
	if i.journalOn {
		i.journalFn(func() {
			m.entries = old
			if e.ck != nil {
				m.idx[e.ck] = e
			}
		})
	}
}

func (fr *frame) mapClear(m *omap) {
	for len(m.entries) > 0 {
		fr.mapRemoveEntry(m, m.entries[len(m.entries)-1])
	}
}

type mapIter struct {
	m     *omap
	order []*mapEntry
	pos   int
}

func (fr *frame) newMapIter(m *omap) iter {
	it := &mapIter{m: m}
	if m == nil {
		return it
	}
	it.order = append(it.order, m.entries...)
	if m.advers && len(it.order) > 1 && fr.i.ex.mapOrderOn {
		n := len(it.order)
		if n > fr.i.ex.mapOrderMax {
			sh := fr.i.ex.shared
			sh.mu.Lock()
			sh.Assumes[fmt.Sprintf("maps with more than %d entries are iterated in insertion order (not permuted)", fr.i.ex.mapOrderMax)]++
			sh.mu.Unlock()
			return it
		}
		// draw a permutation by successive choices (Fisher-Yates with explored choices)
		for k := 0; k < n-1; k++ {
			j := k + fr.i.ex.choice("maporder", n-k)
			it.order[k], it.order[j] = it.order[j], it.order[k]
		}
	}
	return it
}

func (it *mapIter) next(fr *frame) tuple {
	for it.pos < len(it.order) {
		e := it.order[it.pos]
		it.pos++
		// skip entries deleted during iteration
		live := false
		for _, x := range it.m.entries {
			if x == e {
				live = true
				break
			}
		}
		if live {
			return tuple{true, e.key, e.val}
		}
	}
	return tuple{false, nil, nil}
}
