package interp

// Intercepted functions: the vp API, environment stubs, and functions that cannot be
// interpreted (assembly, unsafe, reflection).

import (
	"crypto/md5"
	"crypto/sha1"
	"fmt"
	"go/types"
	"mime"
	"os"
	"unsafe"

	"golang.org/x/tools/go/ssa"
	"verif/engine/smt"
)

type externalFn func(fr *frame, args []value) value

const vpPath = "github.com/corazawaf/coraza/v3/internal/vp"
const stubPath = "github.com/corazawaf/coraza/v3/internal/vpstub"

// packages whose init is not run (their state is never used through interpreted code)
var skipInit = map[string]bool{
	"runtime": true, "os": true, "syscall": true, "internal/poll": true, "internal/cpu": true,
	"internal/godebug": true, "time": true, "reflect": true, "sync": true, "internal/sync": true,
	"crypto/internal/fips140/check": true, "internal/syscall/unix": true,
	"os/exec": true, "net": true, "internal/testlog": true, "testing": true,
	"math/rand": true, "math/rand/v2": true, "crypto/rand": true, "os/signal": true,
	"internal/runtime/maps": true, "fmt": true, "os/user": true, "runtime/debug": true,
	"internal/reflectlite": true, "internal/oserror": true, "context": true, "net/netip": true, "unique": true, "net/http": true, "crypto/tls": true, "crypto/x509": true, "net/http/internal": true, "golang.org/x/net/http/httpguts": true, "compress/gzip": true,
	vpPath: true,
}

// Key strings are from Function.String().
var externals = map[string]externalFn{}

func (fr *frame) noteStub(name string) {
	// counted per run for the evidence file
	sh := fr.i.ex.shared
	sh.mu.Lock()
	sh.Stubs[name]++
	sh.mu.Unlock()
}

func reg(name string, f externalFn) {
	externals[name] = func(fr *frame, args []value) value {
		if fr.i.stubSeen == nil {
			fr.i.stubSeen = map[string]bool{}
		}
		if !fr.i.stubSeen[name] {
			fr.i.stubSeen[name] = true
			fr.noteStub(name)
		}
		return f(fr, args)
	}
}

func concStr(fr *frame, v value, what string) string {
	s, ok := v.(string)
	if !ok {
		panic(unsupported("symbolic string passed to " + what))
	}
	return s
}

func toStub(name string) externalFn {
	return func(fr *frame, args []value) value {
		return fr.i.callByName(fr, stubPath+"."+name, args)
	}
}

func init() {
	// ---- vp API -------------------------------------------------------------------------
	reg(vpPath+".Byte", func(fr *frame, args []value) value {
		ex := fr.i.ex
		tag := ex.freshTag(concStr(fr, args[0], "vp.Byte"))
		t := ex.newVar(tag, 8)
		ex.draws = append(ex.draws, Draw{Tag: tag, Kind: "byte", terms: []*smt.Term{t}})
		return &sym{t: t, k: types.Uint8}
	})
	reg(vpPath+".Bool", func(fr *frame, args []value) value {
		ex := fr.i.ex
		tag := ex.freshTag(concStr(fr, args[0], "vp.Bool"))
		t := ex.newVar(tag, 8)
		ex.draws = append(ex.draws, Draw{Tag: tag, Kind: "bool", terms: []*smt.Term{t}})
		// a bool draw is an 8-bit variable constrained to 0/1 so that vectors stay integral
		ex.assume(ex.ctx.Bin(smt.OpUle, t, ex.ctx.BV(1, 8)))
		return mkSymBool(ex.ctx.Eq(t, ex.ctx.BV(1, 8)))
	})
	reg(vpPath+".Int", func(fr *frame, args []value) value {
		ex := fr.i.ex
		c := ex.ctx
		tag := ex.freshTag(concStr(fr, args[0], "vp.Int"))
		lo, hi := asInt64(args[1]), asInt64(args[2])
		if lo == hi {
			ex.draws = append(ex.draws, Draw{Tag: tag, Kind: "int", terms: []*smt.Term{c.BV(uint64(lo), 64)}, signed: true})
			return int(lo)
		}
		t := ex.newVar(tag, 64)
		ex.draws = append(ex.draws, Draw{Tag: tag, Kind: "int", terms: []*smt.Term{t}, signed: true})
		ex.assume(c.And(c.Bin(smt.OpSle, c.BV(uint64(lo), 64), t), c.Bin(smt.OpSle, t, c.BV(uint64(hi), 64))))
		return &sym{t: t, k: types.Int}
	})
	reg(vpPath+".Int64", func(fr *frame, args []value) value {
		ex := fr.i.ex
		tag := ex.freshTag(concStr(fr, args[0], "vp.Int64"))
		t := ex.newVar(tag, 64)
		ex.draws = append(ex.draws, Draw{Tag: tag, Kind: "int64", terms: []*smt.Term{t}, signed: true})
		return &sym{t: t, k: types.Int64}
	})
	symBytes := func(fr *frame, args []value, kind string) []value {
		ex := fr.i.ex
		tag := ex.freshTag(concStr(fr, args[0], "vp."+kind))
		n := int(asInt64(args[1]))
		b := make([]value, n)
		terms := make([]*smt.Term, n)
		for k := 0; k < n; k++ {
			t := ex.newVar(fmt.Sprintf("%s[%d]", tag, k), 8)
			terms[k] = t
			b[k] = &sym{t: t, k: types.Uint8}
		}
		ex.draws = append(ex.draws, Draw{Tag: tag, Kind: kind, N: n, terms: terms})
		return b
	}
	reg(vpPath+".Bytes", func(fr *frame, args []value) value {
		return symBytes(fr, args, "bytes")
	})
	reg(vpPath+".String", func(fr *frame, args []value) value {
		b := symBytes(fr, args, "string")
		if len(b) == 0 {
			return ""
		}
		return &symstr{b: b}
	})
	reg(vpPath+".Choice", func(fr *frame, args []value) value {
		ex := fr.i.ex
		k := int(asInt64(args[1]))
		if k <= 1 {
			return 0
		}
		tag := ex.freshTag(concStr(fr, args[0], "vp.Choice"))
		v := ex.choice(tag, k)
		ex.draws = append(ex.draws, Draw{Tag: tag, Kind: "choice", Int: int64(v)})
		return v
	})
	reg(vpPath+".Param", func(fr *frame, args []value) value {
		name := concStr(fr, args[0], "vp.Param")
		if v, ok := fr.i.ex.shared.cfg.Params[name]; ok {
			return v
		}
		return int(asInt64(args[1]))
	})
	reg(vpPath+".Assume", func(fr *frame, args []value) value {
		fr.i.ex.assume(fr.termOf(args[0]))
		return nil
	})
	reg(vpPath+".Assert", func(fr *frame, args []value) value {
		ex := fr.i.ex
		cond := fr.termOf(args[0])
		if !ex.branch(cond) {
			msg := ex.showValue(args[1])
			if s, ok := args[1].(string); ok {
				msg = s
			}
			ex.violation("assert", msg, fr.i.prog.Fset.Position(fr.callPos).String())
			panic(pathEnd{"assert violated"})
		}
		return nil
	})
	reg(vpPath+".Observe", func(fr *frame, args []value) value {
		ex := fr.i.ex
		v := args[1]
		if it, ok := v.(iface); ok {
			if it.t != nil && types.Implements(it.t, errorIface) {
				v = "<error>"
				ex.obs = append(ex.obs, obsRec{tag: concStr(fr, args[0], "vp.Observe"), v: native{v: "<error>"}})
				return nil
			}
			v = it.v
			if it.t == nil {
				ex.obs = append(ex.obs, obsRec{tag: concStr(fr, args[0], "vp.Observe"), v: native{v: "<nil>"}})
				return nil
			}
			if sl, ok := v.([]value); ok {
				if st, ok := it.t.Underlying().(*types.Slice); ok {
					if b, ok := st.Elem().Underlying().(*types.Basic); ok && b.Kind() == types.Uint8 {
						v = mkStr(sl)
					}
				}
			}
		}
		ex.obs = append(ex.obs, obsRec{tag: concStr(fr, args[0], "vp.Observe"), v: v})
		return nil
	})
	reg(vpPath+".Reached", func(fr *frame, args []value) value {
		fr.i.ex.reached(concStr(fr, args[0], "vp.Reached"))
		return nil
	})
	reg(vpPath+".Setup", func(fr *frame, args []value) value {
		// run a concrete, deterministic constructor once per worker, outside the undo journal, so
		// that the state it builds persists across paths
		key := concStr(fr, args[0], "vp.Setup")
		i := fr.i
		if v, ok := i.setupCache[key]; ok {
			return v
		}
		if i.ex.local != nil {
			panic(localFail{"setup in pure call"})
		}
		savedJ := i.journalOn
		i.journalOn = false
		i.initing++
		nd := len(i.ex.draws)
		np := len(i.ex.pc)
		defer func() {
			i.initing--
			i.journalOn = savedJ
		}()
		v := i.call(fr, fr.callPos, args[1], nil)
		if len(i.ex.draws) != nd || len(i.ex.pc) != np {
			panic(unsupported("vp.Setup function drew symbolic input or branched on it"))
		}
		i.setupCache[key] = v
		return v
	})
	reg(vpPath+".Symbolic", func(fr *frame, args []value) value { return true })
	reg(vpPath+".MarkShared", func(fr *frame, args []value) value {
		fr.i.markShared(args[0].([]value))
		return nil
	})
	reg(vpPath+".SymbolicMapOrder", func(fr *frame, args []value) value {
		ex := fr.i.ex
		ex.mapOrderMax = int(asInt64(args[0]))
		ex.mapOrderOn = ex.mapOrderMax > 0
		if !ex.mapOrderOn {
			return nil
		}
		ex.adversMapPkgs = map[string]bool{}
		for _, p := range args[1].([]value) {
			ex.adversMapPkgs[concStr(fr, p, "vp.SymbolicMapOrder")] = true
		}
		return nil
	})

	// ---- runtime / abi ------------------------------------------------------------------
	nop := func(fr *frame, args []value) value { return nil }
	for _, n := range []string{"runtime.SetFinalizer", "runtime.KeepAlive", "runtime.GC", "runtime.Gosched",
		"internal/godebug.(*Setting).IncNonDefault", "internal/race.Acquire", "internal/race.Release",
		"internal/race.ReleaseMerge", "internal/race.Disable", "internal/race.Enable", "internal/race.Read", "internal/race.Write",
		"internal/race.ReadRange", "internal/race.WriteRange", "runtime.SetFinalizer", "runtime.AddCleanup"} {
		reg(n, nop)
	}
	reg("os.Setenv", toStub("Setenv"))
	reg("runtime.GOMAXPROCS", func(fr *frame, args []value) value { return 1 })
	reg("runtime.NumCPU", func(fr *frame, args []value) value { return 1 })
	reg("internal/abi.NoEscape", func(fr *frame, args []value) value { return args[0] })
	reg("internal/abi.Escape", func(fr *frame, args []value) value { return args[0] })
	reg("internal/godebug.(*Setting).Value", func(fr *frame, args []value) value { return "" })
	reg("internal/godebug.New", func(fr *frame, args []value) value { return (*value)(nil) })
	reg("internal/godebug.(*Setting).Name", func(fr *frame, args []value) value { return "" })
	reg("internal/stringslite.Clone", func(fr *frame, args []value) value { return args[0] })
	reg("strings.Clone", func(fr *frame, args []value) value { return args[0] })

	// ---- sync ---------------------------------------------------------------------------
	lockDepth := func(d int) externalFn {
		return func(fr *frame, args []value) value {
			fr.i.lockDepth += d
			return nil
		}
	}
	for _, n := range []string{"(*sync.Mutex).Lock", "(*sync.RWMutex).Lock", "(*sync.RWMutex).RLock", "(*internal/sync.Mutex).Lock"} {
		reg(n, lockDepth(1))
	}
	for _, n := range []string{"(*sync.Mutex).Unlock", "(*sync.RWMutex).Unlock", "(*sync.RWMutex).RUnlock", "(*internal/sync.Mutex).Unlock"} {
		reg(n, lockDepth(-1))
	}
	reg("(*sync.Mutex).TryLock", func(fr *frame, args []value) value { fr.i.lockDepth++; return true })
	reg("(*sync.Pool).Get", func(fr *frame, args []value) value {
		i := fr.i
		p := args[0].(*value)
		l := i.pools[p]
		if n := len(l); n > 0 {
			v := l[n-1]
			i.pools[p] = l[:n-1]
			if i.journalOn {
				i.journalFn(func() { i.pools[p] = l })
			}
			return v
		}
		// field New func() any
		st := (*p).(structure)
		newFn := st[len(st)-1]
		if f, ok := newFn.(*ssa.Function); ok && f == nil {
			return iface{}
		}
		return i.call(fr, fr.callPos, newFn, nil)
	})
	reg("(*sync.Pool).Put", func(fr *frame, args []value) value {
		i := fr.i
		p := args[0].(*value)
		if it, ok := args[1].(iface); ok && it.t == nil {
			return nil
		}
		l := i.pools[p]
		n := len(l)
		i.pools[p] = append(l[:n:n], args[1])
		if i.journalOn {
			i.journalFn(func() { i.pools[p] = l })
		}
		return nil
	})

	// sync.Map: sequential model on an ordered map kept in a side table (journalled)
	smap := func(fr *frame, p *value, create bool) *omap {
		i := fr.i
		if m, ok := i.syncMaps[p]; ok {
			return m
		}
		if !create {
			return nil
		}
		m := i.makeMap(types.NewInterfaceType(nil, nil), 0)
		i.syncMaps[p] = m
		if i.journalOn {
			i.journalFn(func() { delete(i.syncMaps, p) })
		}
		return m
	}
	reg("(*sync.Map).Load", func(fr *frame, args []value) value {
		m := smap(fr, args[0].(*value), false)
		if v, ok := fr.mapLookup(m, args[1]); ok {
			return tuple{v, true}
		}
		return tuple{iface{}, false}
	})
	reg("(*sync.Map).Store", func(fr *frame, args []value) value {
		fr.mapInsert(smap(fr, args[0].(*value), true), args[1], args[2])
		return nil
	})
	reg("(*sync.Map).LoadOrStore", func(fr *frame, args []value) value {
		m := smap(fr, args[0].(*value), true)
		if v, ok := fr.mapLookup(m, args[1]); ok {
			return tuple{v, true}
		}
		fr.mapInsert(m, args[1], args[2])
		return tuple{args[2], false}
	})
	reg("(*sync.Map).Delete", func(fr *frame, args []value) value {
		if m := smap(fr, args[0].(*value), false); m != nil {
			fr.mapDelete(m, args[1])
		}
		return nil
	})
	reg("(*sync.Map).LoadAndDelete", func(fr *frame, args []value) value {
		m := smap(fr, args[0].(*value), false)
		if v, ok := fr.mapLookup(m, args[1]); ok {
			fr.mapDelete(m, args[1])
			return tuple{v, true}
		}
		return tuple{iface{}, false}
	})
	reg("(*sync.Map).Range", func(fr *frame, args []value) value {
		m := smap(fr, args[0].(*value), false)
		if m == nil {
			return nil
		}
		snapshot := append([]*mapEntry{}, m.entries...)
		for _, e := range snapshot {
			live := false
			for _, x := range m.entries {
				if x == e {
					live = true
				}
			}
			if !live {
				continue
			}
			r := fr.i.call(fr, fr.callPos, args[1], []value{e.key, e.val})
			if b, ok := r.(bool); ok && !b {
				break
			}
		}
		return nil
	})
	reg("(*golang.org/x/sync/singleflight.Group).Do", func(fr *frame, args []value) value {
		// sequential model: no call is ever in flight concurrently
		r := fr.i.call(fr, fr.callPos, args[2], nil).(tuple)
		return tuple{r[0], r[1], false}
	})

	// ---- atomics ------------------------------------------------------------------------
	for _, T := range []string{"Int32", "Int64", "Uint32", "Uint64", "Uintptr", "Pointer"} {
		reg("sync/atomic.Load"+T, func(fr *frame, args []value) value { return *(args[0].(*value)) })
		reg("sync/atomic.Store"+T, func(fr *frame, args []value) value {
			fr.i.inSync++
			fr.i.setCell(args[0].(*value), args[1])
			fr.i.inSync--
			return nil
		})
		reg("sync/atomic.Swap"+T, func(fr *frame, args []value) value {
			p := args[0].(*value)
			old := *p
			fr.i.inSync++
			fr.i.setCell(p, args[1])
			fr.i.inSync--
			return old
		})
		reg("sync/atomic.CompareAndSwap"+T, func(fr *frame, args []value) value {
			p := args[0].(*value)
			eq := fr.equals(nil, *p, args[1])
			b, ok := eq.(bool)
			if !ok {
				b = fr.i.ex.branch(eq.(*sym).t)
			}
			if b {
				fr.i.inSync++
				fr.i.setCell(p, args[2])
				fr.i.inSync--
			}
			return b
		})
		if T != "Pointer" {
			reg("sync/atomic.Add"+T, func(fr *frame, args []value) value {
				p := args[0].(*value)
				nv := fr.binop(tokenADD, nil, *p, args[1])
				fr.i.inSync++
				fr.i.setCell(p, nv)
				fr.i.inSync--
				return nv
			})
		}
	}

	// ---- time / os ----------------------------------------------------------------------
	reg("time.Now", func(fr *frame, args []value) value {
		// wall=0 (no monotonic), ext = seconds since year 1 for 2026-01-02 03:04:05 UTC, loc=nil (UTC)
		fr.i.clock++
		return structure{uint64(0), int64(63902919845) + fr.i.clock, (*value)(nil)}
	})
	reg("time.runtimeNano", func(fr *frame, args []value) value { fr.i.clock++; return int64(1_000_000_000) + fr.i.clock })
	reg("time.Since", func(fr *frame, args []value) value { return int64(1000) })
	reg("os.TempDir", func(fr *frame, args []value) value { return "/tmp" })
	reg("os.Getwd", func(fr *frame, args []value) value { return tuple{"/", iface{}} })
	reg("os.Getenv", func(fr *frame, args []value) value { return os.Getenv(concStr(fr, args[0], "os.Getenv")) })
	reg("os.LookupEnv", func(fr *frame, args []value) value {
		v, ok := os.LookupEnv(concStr(fr, args[0], "os.LookupEnv"))
		return tuple{v, ok}
	})
	reg("os.ReadFile", func(fr *frame, args []value) value {
		// file-system model: no file exists unless a harness installed it (none does yet)
		return tuple{[]value(nil), fr.newError("open " + concStr(fr, args[0], "os.ReadFile") + ": no such file or directory")}
	})
	reg("os.Hostname", func(fr *frame, args []value) value { return tuple{"localhost", iface{}} })
	reg("os.Getpid", func(fr *frame, args []value) value { return 4242 })

	// ---- assembly fallbacks (interpreted Go in internal/vpstub) --------------------------
	reg("internal/bytealg.IndexByte", toStub("IndexByte"))
	reg("internal/bytealg.IndexByteString", toStub("IndexByteString"))
	reg("internal/bytealg.LastIndexByte", toStub("LastIndexByte"))
	reg("internal/bytealg.LastIndexByteString", toStub("LastIndexByteString"))
	reg("internal/bytealg.Count", toStub("Count"))
	reg("internal/bytealg.CountString", toStub("CountString"))
	reg("internal/bytealg.Index", toStub("Index"))
	reg("internal/bytealg.IndexString", toStub("IndexString"))
	reg("internal/bytealg.Compare", toStub("Compare"))
	reg("internal/bytealg.CompareString", toStub("CompareString"))
	reg("internal/bytealg.Equal", func(fr *frame, args []value) value {
		return fr.strBinop(tokenEQL, mkStr(args[0].([]value)), mkStr(args[1].([]value)))
	})
	reg("bytes.Equal", externals["internal/bytealg.Equal"])
	reg("internal/bytealg.MakeNoZero", func(fr *frame, args []value) value {
		n := fr.concInt(args[0])
		s := make([]value, n)
		for k := range s {
			s[k] = uint8(0)
		}
		fr.i.noteAlloc()
		return s
	})
	reg("bytes.growSlice", nil2(func(fr *frame, args []value) value {
		b := args[0].([]value)
		n := int(fr.concInt(args[1]))
		c := len(b) + n
		if c < 2*cap(b) {
			c = 2 * cap(b)
		}
		nb := make([]value, len(b), c)
		copy(nb, b)
		for k := len(b); k < c; k++ {
			nb[:c][k] = uint8(0)
		}
		fr.i.noteAlloc()
		return nb
	}))

	// ---- GODEBUG settings: all at their defaults ----------------------------------------
	reg("(*internal/godebug.Setting).Value", func(fr *frame, args []value) value { return "" })
	reg("(*internal/godebug.Setting).IncNonDefault", func(fr *frame, args []value) value { return nil })
	reg("(*internal/godebug.Setting).Name", func(fr *frame, args []value) value { return "" })

	// gjson's header-punning conversions (read-only uses)
	reg("github.com/tidwall/gjson.stringBytes", func(fr *frame, args []value) value { return strBytes(args[0]) })
	reg("github.com/tidwall/gjson.bytesString", func(fr *frame, args []value) value { return mkStr(args[0].([]value)) })

	// Result.Index (an offset computed from two string headers) is not read by coraza: left 0
	reg("github.com/tidwall/gjson.fillIndex", func(fr *frame, args []value) value { return nil })

	// encoding/json is reflection all the way down: Marshal is an opaque stub (fixed text, no
	// error); only callers that do not look at the text may rely on it
	reg("encoding/json.Marshal", func(fr *frame, args []value) value {
		return tuple{strBytes("{}"), iface{}}
	})

	// the MIME table is host state behind sync.Map: looked up natively on the concrete extension
	reg("mime.TypeByExtension", func(fr *frame, args []value) value {
		return mime.TypeByExtension(concStr(fr, args[0], "mime.TypeByExtension"))
	})

	// go:linkname pull
	reg("mime/multipart.readMIMEHeader", func(fr *frame, args []value) value {
		return fr.i.callByName(fr, "net/textproto.readMIMEHeader", args)
	})

	// ---- hashes -------------------------------------------------------------------------
	// the block functions are assembly (or dispatch to assembly on CPU features); the portable
	// Go body in the same package is the definition and is what gets encoded
	reg("crypto/md5.block", func(fr *frame, args []value) value {
		return fr.i.callByName(fr, "crypto/md5.blockGeneric", args)
	})
	reg("crypto/sha1.block", func(fr *frame, args []value) value {
		return fr.i.callByName(fr, "crypto/sha1.blockGeneric", args)
	})
	reg("crypto/internal/boring/sig.StandardCrypto", func(fr *frame, args []value) value { return nil })
	reg("crypto/internal/boring/sig.BoringCrypto", func(fr *frame, args []value) value { return nil })
	reg("crypto/internal/boring/sig.FIPSOnly", func(fr *frame, args []value) value { return nil })
	reg("crypto/internal/fips140only.Enforced", func(fr *frame, args []value) value { return false })
	reg("crypto/md5.Sum", func(fr *frame, args []value) value {
		if !allConcBytes(args[0]) {
			return useBody{}
		}
		b := concBytes(fr, args[0], "md5.Sum")
		sum := md5.Sum(b)
		out := make(array, len(sum))
		for k, c := range sum {
			out[k] = c
		}
		return out
	})
	reg("crypto/sha1.Sum", func(fr *frame, args []value) value {
		if !allConcBytes(args[0]) {
			return useBody{}
		}
		b := concBytes(fr, args[0], "sha1.Sum")
		sum := sha1.Sum(b)
		out := make(array, len(sum))
		for k, c := range sum {
			out[k] = c
		}
		return out
	})
}

func nil2(f externalFn) externalFn { return f }

var errorIface = types.Universe.Lookup("error").Type().Underlying().(*types.Interface)

// useBody is returned by an external that declines the call: the Go body is interpreted instead.
type useBody struct{}

func allConcBytes(v value) bool {
	for _, e := range v.([]value) {
		if _, ok := e.(uint8); !ok {
			return false
		}
	}
	return true
}

func concBytes(fr *frame, v value, what string) []byte {
	sl := v.([]value)
	b := make([]byte, len(sl))
	for k, e := range sl {
		c, ok := e.(uint8)
		if !ok {
			panic(unsupported("symbolic bytes passed to " + what))
		}
		b[k] = c
	}
	return b
}

func bytesToValues(b []byte) []value {
	r := make([]value, len(b))
	for k, c := range b {
		r[k] = c
	}
	return r
}

// unsafe builtins -------------------------------------------------------------------------

func (fr *frame) unsafeBuiltin(name string, fn *ssa.Builtin, args []value) (value, bool) {
	switch name {
	case "StringData", "unsafe.StringData":
		switch s := args[0].(type) {
		case string:
			if len(s) == 0 {
				return (*value)(nil), true
			}
			key := uintptr(unsafe.Pointer(unsafe.StringData(s)))
			if c, ok := fr.i.strCells[key]; ok {
				return c.cell, true
			}
			var cell value = s[0]
			c := &strCell{cell: &cell, pin: s}
			fr.i.strCells[key] = c
			fr.i.strCellOf[c.cell] = s
			return c.cell, true
		case *symstr:
			if len(s.b) == 0 {
				return (*value)(nil), true
			}
			return &s.b[0], true
		}
	case "SliceData", "unsafe.SliceData":
		s := args[0].([]value)
		if cap(s) == 0 {
			return (*value)(nil), true
		}
		return &s[:1][0], true
	case "String", "unsafe.String":
		p := args[0].(*value)
		n := int(fr.concInt(args[1]))
		if n == 0 {
			return "", true
		}
		if s, ok := fr.i.strCellOf[p]; ok {
			return s[:n], true
		}
		return mkStr(unsafe.Slice(p, n)), true
	case "Slice", "unsafe.Slice":
		p := args[0].(*value)
		n := int(fr.concInt(args[1]))
		if p == nil {
			return []value(nil), true
		}
		if s, ok := fr.i.strCellOf[p]; ok {
			return strBytes(s[:n]), true
		}
		return unsafe.Slice(p, n), true
	}
	return nil, false
}
