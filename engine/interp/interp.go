// Derived from golang.org/x/tools/go/ssa/interp (BSD-style licence, The Go Authors).
//
// Package interp is a symbolic executor for the go/ssa form of Go programs: a fork of the
// x/tools SSA interpreter in which booleans, integers and string/slice bytes may be SMT terms,
// branches on symbolic conditions are explored on both sides (decided by an SMT solver), and
// assertions / run-time panics become solver queries.
package interp

import (
	"fmt"
	"go/token"
	"go/types"
	"os"
	"reflect"
	"slices"
	"strings"

	"golang.org/x/tools/go/ssa"
	"verif/engine/smt"
)

type continuation int

const (
	kNext continuation = iota
	kReturn
	kJump
)

type undoRec struct {
	addr *value
	old  value
	fn   func()
}

// interpreter: the per-worker machine state.
type interpreter struct {
	prog     *ssa.Program
	globals  map[*ssa.Global]*value
	inited   map[*ssa.Package]bool
	initing  int
	sizes    types.Sizes
	ctx      *smt.Ctx
	ex       *explorer
	trace    bool
	funcByNm map[string]*ssa.Function

	journalOn bool
	journal   []undoRec

	steps      int64
	stepBudget int64
	allocs     int64

	// per-path side tables (reset at path start)
	pools    map[*value][]value
	syncMaps map[*value]*omap
	strCells map[uintptr]*strCell
	fs       *memFS

	runtimeErrorT types.Type

	funcsSeen     map[*ssa.Function]int64 // function -> instructions executed (evidence)
	depth         int
	stubSeen      map[string]bool
	shared        *sharedSet
	inSync        int
	curFn         *ssa.Function
	setupCache    map[string]value
	noSummary     map[*ssa.Function]bool
	pure          map[*ssa.Function]bool
	fnInfos       map[*ssa.Function]*fnInfo
	regionsMerged int64
	noMerge       bool
	lockDepth     int
	clock         int64
	strCellOf     map[*value]string
}

type strCell struct {
	cell *value
	pin  any
}

func (i *interpreter) journalFn(f func()) {
	i.journal = append(i.journal, undoRec{fn: f})
}

func (i *interpreter) rollback() {
	for k := len(i.journal) - 1; k >= 0; k-- {
		r := i.journal[k]
		if r.fn != nil {
			r.fn()
		} else {
			*r.addr = r.old
		}
	}
	i.journal = i.journal[:0]
}

func (i *interpreter) noteAlloc() { i.allocs++ }

type deferred struct {
	fn    value
	args  []value
	instr *ssa.Defer
	tail  *deferred
}

type frame struct {
	i                *interpreter
	caller           *frame
	fn               *ssa.Function
	block, prevBlock *ssa.BasicBlock
	env              map[ssa.Value]value // dynamic values of SSA variables
	locals           []value
	defers           *deferred
	result           value
	panicking        bool
	panic            any
	phitemps         []value // temporaries for parallel phi assignment
	callPos          token.Pos
	curInstr         int
	phiCount         int
	phisDone         bool
}

func (fr *frame) curInstrAbs() int { return fr.phiCount + fr.curInstr }

// control-flow signals that must never be intercepted by target defers/recover
type pathEnd struct{ reason string }     // path is infeasible or finished early (Assume false)
type unsupportedErr struct{ msg string } // construct outside the engine
type boundErr struct{ msg string }       // budget exceeded

func unsupported(msg string) unsupportedErr { return unsupportedErr{msg} }
func boundExceeded(msg string) boundErr     { return boundErr{msg} }
func isControl(p any) bool {
	switch p.(type) {
	case pathEnd, unsupportedErr, boundErr, localFail:
		return true
	}
	return false
}

func (i *interpreter) global(g *ssa.Global) *value {
	if r, ok := i.globals[g]; ok {
		return r
	}
	i.ensureInit(g.Pkg)
	if r, ok := i.globals[g]; ok {
		return r
	}
	cell := zero(g.Type().Underlying().(*types.Pointer).Elem())
	p := &cell
	i.globals[g] = p
	return p
}

// ensureInit runs the initializer of pkg (its own body only; imported packages are initialised
// lazily when first touched) the first time the package is used.
func (i *interpreter) ensureInit(pkg *ssa.Package) {
	if pkg == nil || i.inited[pkg] {
		return
	}
	i.inited[pkg] = true
	for _, m := range pkg.Members {
		if g, ok := m.(*ssa.Global); ok {
			if _, ok := i.globals[g]; !ok {
				cell := zero(g.Type().Underlying().(*types.Pointer).Elem())
				i.globals[g] = &cell
			}
		}
	}
	if skipInit[pkg.Pkg.Path()] {
		return
	}
	initFn := pkg.Func("init")
	if initFn == nil || initFn.Blocks == nil {
		return
	}
	savedJ := i.journalOn
	i.journalOn = false
	i.initing++
	savedSteps := i.steps
	defer func() {
		i.initing--
		i.journalOn = savedJ
		i.steps = savedSteps
	}()
	if i.trace {
		fmt.Fprintf(os.Stderr, "init %s\n", pkg.Pkg.Path())
	}
	i.call(nil, token.NoPos, initFn, nil)
}

func (fr *frame) get(key ssa.Value) value {
	switch key := key.(type) {
	case nil:
		return nil
	case *ssa.Function:
		return key
	case *ssa.Builtin:
		return key
	case *ssa.Const:
		v := constValue(key)
		if s, ok := v.(string); ok {
			return fr.i.intern(s)
		}
		return v
	case *ssa.Global:
		return fr.i.global(key)
	}
	if r, ok := fr.env[key]; ok {
		return r
	}
	panic(fmt.Sprintf("get: no value for %T: %v", key, key.Name()))
}

var internPerProg = map[string]string{}

func (i *interpreter) intern(s string) string {
	return i.ex.shared.intern(s)
}

// runDefer runs a deferred call d.
// It always returns normally, but may set or clear fr.panic.
func (fr *frame) runDefer(d *deferred) {
	var ok bool
	defer func() {
		if !ok {
			p := recover()
			if isControl(p) {
				panic(p)
			}
			// Deferred call created a new state of panic.
			fr.panicking = true
			fr.panic = p
		}
	}()
	fr.i.call(fr, d.instr.Pos(), d.fn, d.args)
	ok = true
}

func (fr *frame) runDefers() {
	for d := fr.defers; d != nil; d = d.tail {
		fr.runDefer(d)
	}
	fr.defers = nil
	if fr.panicking {
		panic(fr.panic) // new panic, or still panicking
	}
}

func derefType(t types.Type) types.Type {
	return t.Underlying().(*types.Pointer).Elem()
}

// visitInstr interprets a single ssa.Instruction within the activation
// record frame.
func (fr *frame) visitInstr(instr ssa.Instruction) continuation {
	switch instr := instr.(type) {
	case *ssa.DebugRef:
		// no-op

	case *ssa.UnOp:
		fr.env[instr] = fr.unop(instr, fr.get(instr.X))

	case *ssa.BinOp:
		fr.env[instr] = fr.binop(instr.Op, instr.X.Type(), fr.get(instr.X), fr.get(instr.Y))

	case *ssa.Call:
		fn, args := fr.prepareCall(&instr.Call)
		fr.env[instr] = fr.i.call(fr, instr.Pos(), fn, args)

	case *ssa.ChangeInterface:
		fr.env[instr] = fr.get(instr.X)

	case *ssa.ChangeType:
		fr.env[instr] = fr.get(instr.X) // (can't fail)

	case *ssa.Convert:
		fr.env[instr] = fr.conv(instr.Type(), instr.X.Type(), fr.get(instr.X))

	case *ssa.MultiConvert:
		fr.env[instr] = fr.conv(instr.Type(), instr.X.Type(), fr.get(instr.X))

	case *ssa.SliceToArrayPointer:
		fr.env[instr] = sliceToArrayPointer(instr.Type(), instr.X.Type(), fr.get(instr.X))

	case *ssa.MakeInterface:
		fr.env[instr] = iface{t: instr.X.Type(), v: fr.get(instr.X)}

	case *ssa.Extract:
		fr.env[instr] = fr.get(instr.Tuple).(tuple)[instr.Index]

	case *ssa.Slice:
		fr.env[instr] = fr.slice(fr.get(instr.X), fr.get(instr.Low), fr.get(instr.High), fr.get(instr.Max))

	case *ssa.Return:
		switch len(instr.Results) {
		case 0:
		case 1:
			fr.result = fr.get(instr.Results[0])
		default:
			var res []value
			for _, r := range instr.Results {
				res = append(res, fr.get(r))
			}
			fr.result = tuple(res)
		}
		fr.block = nil
		return kReturn

	case *ssa.RunDefers:
		fr.runDefers()

	case *ssa.Panic:
		panic(targetPanic{v: fr.get(instr.X)})

	case *ssa.Send:
		panic(unsupported("channel send"))

	case *ssa.Store:
		fr.storePtr(derefType(instr.Addr.Type()), fr.get(instr.Addr), fr.get(instr.Val))

	case *ssa.If:
		succ := 1
		switch c := fr.get(instr.Cond).(type) {
		case bool:
			if c {
				succ = 0
			}
		case *sym:
			if !fr.i.noMerge && fr.tryRegion(c.t) {
				return kJump
			}
			if fr.i.ex.branch(c.t) {
				succ = 0
			}
		default:
			panic(fmt.Sprintf("If on %T", c))
		}
		fr.prevBlock, fr.block = fr.block, fr.block.Succs[succ]
		return kJump

	case *ssa.Jump:
		fr.prevBlock, fr.block = fr.block, fr.block.Succs[0]
		return kJump

	case *ssa.Defer:
		fn, args := fr.prepareCall(&instr.Call)
		defers := &fr.defers
		if into := fr.get(instr.DeferStack); into != nil {
			defers = into.(**deferred)
		}
		*defers = &deferred{
			fn:    fn,
			args:  args,
			instr: instr,
			tail:  *defers,
		}

	case *ssa.Go:
		panic(unsupported("go statement in " + fr.fn.String()))

	case *ssa.MakeChan:
		fr.env[instr] = &chanStub{}

	case *ssa.Alloc:
		var addr *value
		if instr.Heap {
			// new
			addr = new(value)
			fr.env[instr] = addr
			fr.i.noteAlloc()
		} else {
			// local
			addr = fr.env[instr].(*value)
		}
		*addr = zero(derefType(instr.Type()))

	case *ssa.MakeSlice:
		n := fr.concInt(fr.get(instr.Cap))
		l := fr.concInt(fr.get(instr.Len))
		if l < 0 || n < l || n > 1<<28 {
			panic(rtPanic("makeslice: len out of range"))
		}
		slice := make([]value, n)
		tElt := instr.Type().Underlying().(*types.Slice).Elem()
		for i := range slice {
			slice[i] = zero(tElt)
		}
		fr.i.noteAlloc()
		fr.env[instr] = slice[:l]

	case *ssa.MakeMap:
		m := fr.i.makeMap(instr.Type().Underlying().(*types.Map).Key(), 0)
		if fr.i.ex.adversMapPkgs != nil && fr.fn.Pkg != nil && fr.i.ex.adversMapPkgs[fr.fn.Pkg.Pkg.Path()] {
			m.advers = true
		}
		fr.env[instr] = m

	case *ssa.Range:
		fr.env[instr] = fr.rangeIter(fr.get(instr.X))

	case *ssa.Next:
		fr.env[instr] = fr.get(instr.Iter).(iter).next(fr)

	case *ssa.FieldAddr:
		p := fr.realPtr(fr.get(instr.X))
		if p == nil {
			panic(rtPanic("invalid memory address or nil pointer dereference"))
		}
		fr.env[instr] = &(*p).(structure)[instr.Field]

	case *ssa.Field:
		fr.env[instr] = fr.get(instr.X).(structure)[instr.Field]

	case *ssa.IndexAddr:
		x := fr.get(instr.X)
		idx := fr.get(instr.Index)
		var elems []value
		var elemT types.Type
		switch x := x.(type) {
		case []value:
			elems = x
			elemT = instr.X.Type().Underlying().(*types.Slice).Elem()
		case *value: // *array
			if x == nil {
				panic(rtPanic("invalid memory address or nil pointer dereference"))
			}
			elems = (*x).(array)
			elemT = derefType(instr.X.Type()).Underlying().(*types.Array).Elem()
		case *symptr:
			rp := fr.realPtr(x)
			elems = (*rp).(array)
			elemT = derefType(instr.X.Type()).Underlying().(*types.Array).Elem()
		default:
			panic(fmt.Sprintf("unexpected x type in IndexAddr: %T", x))
		}
		if s, ok := idx.(*sym); ok {
			fr.env[instr] = fr.symIndexAddr(elems, elemT, s)
		} else {
			i := asInt64(idx)
			if i < 0 || i >= int64(len(elems)) {
				panic(rtPanic(fmt.Sprintf("index out of range [%d] with length %d", i, len(elems))))
			}
			fr.env[instr] = &elems[i]
		}

	case *ssa.Index:
		x := fr.get(instr.X)
		idx := fr.get(instr.Index)
		switch x := x.(type) {
		case array:
			if s, ok := idx.(*sym); ok {
				p := fr.symIndexAddr(x, instr.X.Type().Underlying().(*types.Array).Elem(), s)
				fr.env[instr] = fr.loadPtr(instr.Type(), p)
			} else {
				i := asInt64(idx)
				if i < 0 || i >= int64(len(x)) {
					panic(rtPanic(fmt.Sprintf("index out of range [%d] with length %d", i, len(x))))
				}
				fr.env[instr] = copyVal(x[i])
			}
		case string:
			if s, ok := idx.(*sym); ok {
				b := strBytes(x)
				p := fr.symIndexAddr(b, types.Typ[types.Uint8], s)
				fr.env[instr] = fr.loadPtr(types.Typ[types.Uint8], p)
			} else {
				i := asInt64(idx)
				if i < 0 || i >= int64(len(x)) {
					panic(rtPanic(fmt.Sprintf("index out of range [%d] with length %d", i, len(x))))
				}
				fr.env[instr] = x[i]
			}
		case *symstr:
			if s, ok := idx.(*sym); ok {
				p := fr.symIndexAddr(x.b, types.Typ[types.Uint8], s)
				fr.env[instr] = fr.loadPtr(types.Typ[types.Uint8], p)
			} else {
				i := asInt64(idx)
				if i < 0 || i >= int64(len(x.b)) {
					panic(rtPanic(fmt.Sprintf("index out of range [%d] with length %d", i, len(x.b))))
				}
				fr.env[instr] = x.b[i]
			}
		default:
			panic(fmt.Sprintf("unexpected x type in Index: %T", x))
		}

	case *ssa.Lookup:
		x := fr.get(instr.X)
		idx := fr.get(instr.Index)
		switch x := x.(type) {
		case *omap:
			v, ok := fr.mapLookup(x, idx)
			if !ok {
				v = zero(instr.X.Type().Underlying().(*types.Map).Elem())
			} else {
				v = copyVal(v)
			}
			if instr.CommaOk {
				v = tuple{v, ok}
			}
			fr.env[instr] = v
		default:
			panic(fmt.Sprintf("unexpected x type in Lookup: %T", x))
		}

	case *ssa.MapUpdate:
		m := fr.get(instr.Map).(*omap)
		fr.mapInsert(m, fr.get(instr.Key), copyVal(fr.get(instr.Value)))

	case *ssa.TypeAssert:
		fr.env[instr] = fr.typeAssert(instr, fr.get(instr.X).(iface))

	case *ssa.MakeClosure:
		var bindings []value
		for _, binding := range instr.Bindings {
			bindings = append(bindings, fr.get(binding))
		}
		fr.env[instr] = &closure{instr.Fn.(*ssa.Function), bindings}

	case *ssa.Phi:
		panic("unreachable") // phis are processed at block entry

	case *ssa.Select:
		panic(unsupported("select"))

	default:
		panic(fmt.Sprintf("unexpected instruction: %T", instr))
	}
	return kNext
}

// symIndexAddr: bounds query, then a symbolic element address.
func (fr *frame) symIndexAddr(elems []value, elemT types.Type, idx *sym) value {
	c := fr.i.ctx
	var t *smt.Term
	w := kindWidth(idx.k)
	if w < 64 {
		if kindSigned(idx.k) {
			t = c.Sext(idx.t, 64)
		} else {
			t = c.Zext(idx.t, 64)
		}
	} else {
		t = idx.t
	}
	inRange := c.Bin(smt.OpUlt, t, c.BV(uint64(len(elems)), 64))
	fr.i.ex.checkNoPanic(inRange, fmt.Sprintf("index out of range with length %d", len(elems)))
	if len(elems) == 1 {
		return &elems[0]
	}
	// few feasible values and aggregate elements are handled by symLoad/symStore
	return &symptr{elems: elems, idx: t, elemT: elemT}
}

// prepareCall determines the function value and argument values for a
// function call in a Call, Go or Defer instruction, performing
// interface method lookup if needed.
func (fr *frame) prepareCall(call *ssa.CallCommon) (fn value, args []value) {
	v := fr.get(call.Value)
	if call.Method == nil {
		// Function call.
		fn = v
	} else {
		// Interface method invocation.
		recv := v.(iface)
		if recv.t == nil {
			panic(rtPanic("invalid memory address or nil pointer dereference (method call on nil interface)"))
		}
		if nt, ok := recv.v.(native); ok {
			fn = &nativeMethod{recv: nt, name: call.Method.Name()}
			for _, arg := range call.Args {
				args = append(args, fr.get(arg))
			}
			return
		}
		f := fr.i.prog.LookupMethod(recv.t, call.Method.Pkg(), call.Method.Name())
		if f == nil {
			panic(fmt.Sprintf("method set for dynamic type %v does not contain %s", recv.t, call.Method))
		}
		fn = f
		args = append(args, recv.v)
	}
	for _, arg := range call.Args {
		args = append(args, copyVal(fr.get(arg)))
	}
	return
}

type nativeMethod struct {
	recv native
	name string
}

// call interprets a call to a function (function, builtin or closure)
// fn with arguments args, returning its result.
func (i *interpreter) call(caller *frame, callpos token.Pos, fn value, args []value) value {
	switch fn := fn.(type) {
	case *ssa.Function:
		if fn == nil {
			panic(rtPanic("invalid memory address or nil pointer dereference (call of nil func)"))
		}
		if !i.noMerge && !i.noSummary[fn] && hasSym(args) && i.isPure(fn) {
			if v, ok := i.summarize(caller, callpos, fn, args); ok {
				return v
			}
		}
		return i.callSSA(caller, callpos, fn, args, nil)
	case *closure:
		return i.callSSA(caller, callpos, fn.Fn, args, fn.Env)
	case *ssa.Builtin:
		fr := caller
		if fr == nil {
			fr = &frame{i: i}
		}
		return fr.callBuiltin(caller, fn, args)
	case *nativeMethod:
		return i.callNativeMethod(caller, fn, args)
	case native:
		if f, ok := fn.v.(func(fr *frame, args []value) value); ok {
			return f(caller, args)
		}
	}
	panic(fmt.Sprintf("cannot call %T", fn))
}

func (i *interpreter) callByName(caller *frame, name string, args []value) value {
	fn := i.funcByNm[name]
	if fn == nil {
		fn = i.lookupFunc(name)
		if fn == nil {
			panic(unsupported("function not in program: " + name))
		}
		i.funcByNm[name] = fn
	}
	return i.call(caller, token.NoPos, fn, args)
}

// lookupFunc resolves "pkgpath.Func" or "(pkgpath.T).Method" / "(*pkgpath.T).Method".
func (i *interpreter) lookupFunc(name string) *ssa.Function {
	if strings.HasPrefix(name, "(") {
		end := strings.Index(name, ").")
		recv := name[1:end]
		meth := name[end+2:]
		ptr := strings.HasPrefix(recv, "*")
		recv = strings.TrimPrefix(recv, "*")
		dot := strings.LastIndex(recv, ".")
		pkg := i.prog.ImportedPackage(recv[:dot])
		if pkg == nil {
			return nil
		}
		tn := pkg.Type(recv[dot+1:])
		if tn == nil {
			return nil
		}
		var T types.Type = tn.Type()
		if ptr {
			T = types.NewPointer(T)
		}
		return i.prog.LookupMethod(T, pkg.Pkg, meth)
	}
	dot := strings.LastIndex(name, ".")
	pkg := i.prog.ImportedPackage(name[:dot])
	if pkg == nil {
		return nil
	}
	return pkg.Func(name[dot+1:])
}

func loc(fset *token.FileSet, pos token.Pos) string {
	if pos == token.NoPos {
		return ""
	}
	return " at " + fset.Position(pos).String()
}

// callSSA interprets a call to function fn with arguments args,
// and lexical environment env, returning its result.
func (i *interpreter) callSSA(caller *frame, callpos token.Pos, fn *ssa.Function, args []value, env []value) value {
	if i.trace {
		fmt.Fprintf(os.Stderr, "%*sEntering %s\n", i.depth, "", fn)
	}
	fr := &frame{
		i:       i,
		caller:  caller, // for panic/recover
		fn:      fn,
		callPos: callpos,
	}
	if fn.Parent() == nil {
		if caller != nil && fn.Synthetic == "package initializer" {
			// imported packages are initialised lazily, when first touched
			return nil
		}
		name := fn.String()
		if strings.HasPrefix(name, "reflect.TypeFor[") {
			// package-level reflect.Type values of marshalling code the harnesses never reach:
			// a nil Type (any use of it panics loudly instead of computing something wrong)
			fr.noteStub("reflect.TypeFor")
			return iface{}
		}
		if ext := externals[name]; ext != nil {
			if r := ext(fr, args); r != (useBody{}) {
				return r
			}
		}
		if fn.Signature.Recv() != nil && len(args) > 0 {
			if nt, ok := args[0].(native); ok {
				// method of an opaque host object (e.g. *regexp.Regexp)
				return i.nativeCall(caller, reflect.ValueOf(nt.v), fn.Name(), args[1:], fn.Signature)
			}
		}
		if fn.Pkg != nil {
			i.ensureInit(fn.Pkg)
		}
		if fn.Blocks == nil {
			if fn.Synthetic != "" && fn.Pkg == nil {
				// wrappers etc. are built on demand by the ssa package
			}
			panic(unsupported("no code for function: " + name))
		}
	} else if fn.Blocks == nil {
		panic(unsupported("no code for function: " + fn.String()))
	}

	if fn.TypeParams().Len() > 0 && len(fn.TypeArgs()) == 0 {
		panic(unsupported("uninstantiated generic function " + fn.String()))
	}
	savedFn := i.curFn
	i.curFn = fn
	defer func() { i.curFn = savedFn }()
	i.depth++
	if i.depth > 400 {
		panic(boundExceeded("call depth > 400 in " + fn.String()))
	}
	defer func() { i.depth-- }()

	fr.env = make(map[ssa.Value]value, len(fn.Params)+len(fn.Locals)+8)
	fr.block = fn.Blocks[0]
	fr.locals = make([]value, len(fn.Locals))
	for k, l := range fn.Locals {
		fr.locals[k] = zero(derefType(l.Type()))
		fr.env[l] = &fr.locals[k]
	}
	for k, p := range fn.Params {
		fr.env[p] = args[k]
	}
	for k, fv := range fn.FreeVars {
		fr.env[fv] = env[k]
	}
	for fr.block != nil {
		fr.runFrame()
	}
	return fr.result
}

// runFrame executes SSA instructions starting at fr.block and
// continuing until a return, a panic, or a recovered panic.
func (fr *frame) runFrame() {
	defer func() {
		if fr.block == nil {
			return // normal return
		}
		p := recover()
		if u, ok := p.(unsupportedErr); ok && !strings.Contains(u.msg, " [in ") {
			u.msg += " [in " + fr.fn.String() + fr.stack() + "]"
			panic(u)
		}
		if isControl(p) {
			panic(p)
		}
		if _, ok := p.(targetPanic); !ok {
			// interpreter fault (or Go run-time error inside the interpreter): report as engine
			// error, never as a target panic
			if _, isRt := p.(engineFault); !isRt {
				p = engineFault{msg: fmt.Sprint(p), where: fr.fn.String() + loc(fr.i.prog.Fset, fr.curPos()) + fr.stack()}
			}
			panic(p)
		}
		tp := p.(targetPanic)
		if tp.where == "" {
			tp.where = fr.fn.String()
			tp.pos = fr.i.prog.Fset.Position(fr.curPos()).String()
		}
		fr.panicking = true
		fr.panic = tp
		fr.runDefers()
		fr.block = fr.fn.Recover
	}()

	i := fr.i
	for {
		nonPhis := fr.executePhis()
		n := int64(len(nonPhis))
		i.steps += n
		if i.funcsSeen != nil {
			i.funcsSeen[fr.fn] += n
		}
		if i.steps > i.stepBudget && i.initing == 0 {
			panic(boundExceeded(fmt.Sprintf("instruction budget %d exceeded in %s", i.stepBudget, fr.fn)))
		}
		for k, instr := range nonPhis {
			fr.curInstr = k
			if fr.visitInstr(instr) == kReturn {
				return
			}
		}
	}
}

type engineFault struct {
	msg   string
	where string
}

func (fr *frame) curPos() token.Pos {
	if fr.block == nil {
		return fr.fn.Pos()
	}
	// nearest instruction with a position, scanning back from the current one
	instrs := fr.block.Instrs
	k := fr.curInstrAbs()
	for ; k >= 0 && k < len(instrs); k-- {
		if p := instrs[k].Pos(); p != token.NoPos {
			return p
		}
	}
	return fr.fn.Pos()
}

// executePhis executes the phi-nodes at the start of the current
// block and returns the non-phi instructions.
func (fr *frame) executePhis() []ssa.Instruction {
	firstNonPhi := -1
	for i, instr := range fr.block.Instrs {
		if _, ok := instr.(*ssa.Phi); !ok {
			firstNonPhi = i
			break
		}
	}
	fr.phiCount = firstNonPhi
	nonPhis := fr.block.Instrs[firstNonPhi:]
	if fr.phisDone {
		fr.phisDone = false
		return nonPhis
	}
	if firstNonPhi > 0 {
		phis := fr.block.Instrs[:firstNonPhi]
		predIndex := slices.Index(fr.block.Preds, fr.prevBlock)
		fr.phitemps = fr.phitemps[:0]
		for _, phi := range phis {
			phi := phi.(*ssa.Phi)
			fr.phitemps = append(fr.phitemps, fr.get(phi.Edges[predIndex]))
		}
		for i, phi := range phis {
			fr.env[phi.(*ssa.Phi)] = fr.phitemps[i]
		}
	}
	return nonPhis
}

// doRecover implements the recover() built-in.
func doRecover(caller *frame) value {
	// recover() must be exactly one level beneath the deferred
	// function (two levels beneath the panicking function) to
	// have any effect.
	if caller != nil && !caller.panicking &&
		caller.caller != nil && caller.caller.panicking {
		caller.caller.panicking = false
		p := caller.caller.panic
		caller.caller.panic = nil
		switch p := p.(type) {
		case targetPanic:
			if e, ok := p.v.(rtError); ok {
				return caller.i.runtimeErrorValue(string(e))
			}
			return p.v
		default:
			panic(fmt.Sprintf("unexpected panic type %T in target call to recover()", p))
		}
	}
	return iface{}
}

func (i *interpreter) runtimeErrorValue(msg string) value {
	if i.runtimeErrorT != nil {
		return iface{t: i.runtimeErrorT, v: "runtime error: " + msg}
	}
	return iface{t: types.Typ[types.String], v: "runtime error: " + msg}
}

func (fr *frame) stack() string {
	var sb strings.Builder
	n := 0
	for f := fr.caller; f != nil && n < 12; f = f.caller {
		sb.WriteString(" <- ")
		sb.WriteString(f.fn.String())
		n++
	}
	return sb.String()
}

// methodOf returns the exported method name of T, or nil when T has no such method.
func (i *interpreter) methodOf(T types.Type, name string) *ssa.Function {
	sel := i.prog.MethodSets.MethodSet(T).Lookup(nil, name)
	if sel == nil {
		return nil
	}
	return i.prog.MethodValue(sel)
}

// realPtr turns a symbolic element address into a concrete one by splitting on the index.
func (fr *frame) realPtr(v value) *value {
	switch p := v.(type) {
	case *value:
		return p
	case *symptr:
		if fr.i.ex.local != nil {
			panic(localFail{"symbolic address"})
		}
		i := fr.i.ex.concretize(p.idx)
		return &p.elems[i]
	}
	panic(fmt.Sprintf("realPtr: %T", v))
}
