package interp

// Native bridges: functions executed by the host on concrete arguments (fmt, regexp, ...).

import (
	"fmt"
	"go/token"
	"go/types"
	"net"
	"reflect"
	"regexp"
	"strings"
	"time"
)

const (
	tokenADD = token.ADD
	tokenEQL = token.EQL
)

// goValue converts an interpreter value into a host value usable by fmt (best effort).
// Symbolic components are rendered as the placeholder "<sym>".
func (fr *frame) goValue(v value) any {
	switch x := v.(type) {
	case bool, int, int8, int16, int32, int64, uint, uint8, uint16, uint32, uint64, uintptr, float32, float64, string:
		return x
	case *sym:
		return "<sym>"
	case *symstr:
		return "<symstr>"
	case iface:
		if x.t == nil {
			return nil
		}
		// error / Stringer: evaluate through the interpreter
		if types.Implements(x.t, errorIface) {
			if f := fr.i.methodOf(x.t, "Error"); f != nil {
				s := fr.i.call(fr, token.NoPos, f, []value{x.v})
				return bridgedError{msg: fr.strOrPlaceholder(s)}
			}
		}
		if f := fr.i.methodOf(x.t, "String"); f != nil && f.Signature.Params().Len() == 0 {
			s := fr.i.call(fr, token.NoPos, f, []value{x.v})
			return bridgedStringer{s: fr.strOrPlaceholder(s)}
		}
		if sl, ok := x.v.([]value); ok {
			if st, ok := x.t.Underlying().(*types.Slice); ok {
				if b, ok := st.Elem().Underlying().(*types.Basic); ok && b.Kind() == types.Uint8 {
					bs := make([]byte, len(sl))
					for k, e := range sl {
						c, ok := e.(uint8)
						if !ok {
							return "<symbytes>"
						}
						bs[k] = c
					}
					return bs
				}
			}
		}
		return fr.goValue(x.v)
	case []value:
		out := make([]any, len(x))
		for k, e := range x {
			out[k] = fr.goValue(e)
		}
		return out
	case structure:
		out := make([]any, len(x))
		for k, e := range x {
			out[k] = fr.goValue(e)
		}
		return out
	case array:
		out := make([]any, len(x))
		for k, e := range x {
			out[k] = fr.goValue(e)
		}
		return out
	case *value:
		if x == nil {
			return nil
		}
		return fmt.Sprintf("%p", x)
	case native:
		return x.v
	case nil:
		return nil
	}
	return fmt.Sprintf("<%T>", v)
}

func (fr *frame) strOrPlaceholder(v value) string {
	if s, ok := v.(string); ok {
		return s
	}
	return "<symstr>"
}

type bridgedError struct{ msg string }

func (e bridgedError) Error() string { return e.msg }

type bridgedStringer struct{ s string }

func (s bridgedStringer) String() string { return s.s }

func (fr *frame) goArgs(v value) []any {
	sl, _ := v.([]value)
	out := make([]any, len(sl))
	for k, e := range sl {
		out[k] = fr.goValue(e)
	}
	return out
}

// symSprintf formats natively, except that a symbolic string under a plain %s / %v keeps its
// symbolic bytes (REQUEST_LINE and similar values are built with Sprintf).  Other symbolic
// operands are rendered as placeholders, as before.
func (fr *frame) symSprintf(format string, argv value) value {
	sl, _ := argv.([]value)
	hasSym := false
	for _, a := range sl {
		if it, ok := a.(iface); ok {
			a = it.v
		}
		if _, ok := a.(*symstr); ok {
			hasSym = true
		}
	}
	if !hasSym || strings.ContainsAny(format, "[*") {
		return fmt.Sprintf(format, fr.goArgs(argv)...)
	}
	var out []value
	lit := func(t string) {
		for k := 0; k < len(t); k++ {
			out = append(out, t[k])
		}
	}
	argi := 0
	for i := 0; i < len(format); {
		if format[i] != '%' {
			j := i
			for j < len(format) && format[j] != '%' {
				j++
			}
			lit(format[i:j])
			i = j
			continue
		}
		j := i + 1
		for j < len(format) && strings.IndexByte("+-# 0123456789.", format[j]) >= 0 {
			j++
		}
		if j >= len(format) {
			lit(format[i:])
			break
		}
		spec := format[i : j+1]
		i = j + 1
		if spec == "%%" {
			lit("%")
			continue
		}
		if argi >= len(sl) {
			lit("%!" + spec[len(spec)-1:] + "(MISSING)")
			continue
		}
		a := sl[argi]
		argi++
		inner := a
		if it, ok := a.(iface); ok {
			inner = it.v
		}
		if ss, ok := inner.(*symstr); ok && (spec == "%s" || spec == "%v") {
			out = append(out, ss.b...)
			continue
		}
		lit(fmt.Sprintf(spec, fr.goValue(a)))
	}
	if argi < len(sl) {
		lit(fmt.Sprintf("%%!(EXTRA %d)", len(sl)-argi))
	}
	return mkStr(out)
}

func (fr *frame) newError(msg string) value {
	return fr.i.callByName(fr, stubPath+".NewErr", []value{msg})
}

func init() {
	reg("fmt.Sprintf", func(fr *frame, args []value) value {
		return fr.symSprintf(concStr(fr, args[0], "fmt.Sprintf"), args[1])
	})
	reg("fmt.Appendln", func(fr *frame, args []value) value {
		return bytesToValues(fmt.Appendln(concBytes(fr, args[0], "fmt.Appendln"), fr.goArgs(args[1])...))
	})
	reg("fmt.Append", func(fr *frame, args []value) value {
		return bytesToValues(fmt.Append(concBytes(fr, args[0], "fmt.Append"), fr.goArgs(args[1])...))
	})
	reg("fmt.Appendf", func(fr *frame, args []value) value {
		return bytesToValues(fmt.Appendf(concBytes(fr, args[0], "fmt.Appendf"), concStr(fr, args[1], "fmt.Appendf"), fr.goArgs(args[2])...))
	})
	reg("fmt.Sprint", func(fr *frame, args []value) value { return fmt.Sprint(fr.goArgs(args[0])...) })
	reg("fmt.Sprintln", func(fr *frame, args []value) value { return fmt.Sprintln(fr.goArgs(args[0])...) })
	reg("fmt.Errorf", func(fr *frame, args []value) value {
		format := concStr(fr, args[0], "fmt.Errorf")
		msg := fmt.Errorf(format, fr.goArgs(args[1])...).Error()
		if strings.Contains(format, "%w") {
			// wrap the (first) error operand so that errors.Is/As/Unwrap keep working
			for _, a := range args[1].([]value) {
				if it, ok := a.(iface); ok && it.t != nil && types.Implements(it.t, errorIface) {
					return fr.i.callByName(fr, stubPath+".NewWrapErr", []value{msg, it})
				}
			}
		}
		return fr.newError(msg)
	})
	for _, n := range []string{"fmt.Fprintf", "fmt.Fprint", "fmt.Fprintln", "fmt.Printf", "fmt.Println", "fmt.Print"} {
		name := n
		reg(name, func(fr *frame, args []value) value {
			var s string
			switch name {
			case "fmt.Fprintf":
				s = fmt.Sprintf(concStr(fr, args[1], name), fr.goArgs(args[2])...)
			case "fmt.Fprint":
				s = fmt.Sprint(fr.goArgs(args[1])...)
			case "fmt.Fprintln":
				s = fmt.Sprintln(fr.goArgs(args[1])...)
			default:
				return tuple{0, iface{}}
			}
			// call w.Write(bytes)
			w := args[0].(iface)
			if w.t == nil {
				panic(rtPanic("invalid memory address or nil pointer dereference"))
			}
			if _, ok := w.v.(native); ok {
				return tuple{len(s), iface{}}
			}
			f := fr.i.methodOf(w.t, "Write")
			if f == nil {
				panic(unsupported("fmt.Fprint*: writer without Write"))
			}
			return fr.i.call(fr, token.NoPos, f, []value{w.v, bytesToValues([]byte(s))})
		})
	}

	// regexp: compiled natively, kept as opaque handles
	reCompile := func(must bool) externalFn {
		return func(fr *frame, args []value) value {
			// a pattern with symbolic bytes is split into its feasible concrete values (one
			// path each): the compiler's verdict depends on every byte
			re, err := regexp.Compile(fr.concretizeString(args[0]))
			if must {
				if err != nil {
					panic(targetPanic{v: "regexp: Compile: " + err.Error()})
				}
				return native{v: re}
			}
			if err != nil {
				return tuple{native{v: (*regexp.Regexp)(nil)}, fr.newError(err.Error())}
			}
			return tuple{native{v: re}, iface{}}
		}
	}
	reg("regexp.Compile", reCompile(false))
	reg("regexp.MustCompile", reCompile(true))
	reg("regexp.QuoteMeta", func(fr *frame, args []value) value {
		return regexp.QuoteMeta(concStr(fr, args[0], "regexp.QuoteMeta"))
	})
}

// callNativeMethod invokes a method of an opaque host object through reflection.
func (i *interpreter) callNativeMethod(caller *frame, nm *nativeMethod, args []value) value {
	return i.nativeCall(caller, reflect.ValueOf(nm.recv.v), nm.name, args, nil)
}

func (i *interpreter) nativeCall(caller *frame, recv reflect.Value, name string, args []value, sig *types.Signature) value {
	if h, ok := nativeHooks[fmt.Sprintf("%s.%s", recv.Type(), name)]; ok {
		return h(caller, recv.Interface(), args)
	}
	m := recv.MethodByName(name)
	if !m.IsValid() {
		panic(unsupported(fmt.Sprintf("native method %s.%s", recv.Type(), name)))
	}
	mt := m.Type()
	in := make([]reflect.Value, len(args))
	for k, a := range args {
		var pt reflect.Type
		if mt.IsVariadic() && k >= mt.NumIn()-1 {
			pt = mt.In(mt.NumIn() - 1)
			if k == mt.NumIn()-1 && len(args) == mt.NumIn() {
				// the variadic slice is passed as one []value
				in[k] = toNative(caller, a, pt, fmt.Sprintf("%s.%s", recv.Type(), name))
				continue
			}
		} else {
			pt = mt.In(k)
		}
		in[k] = toNative(caller, a, pt, fmt.Sprintf("%s.%s", recv.Type(), name))
	}
	var out []reflect.Value
	if mt.IsVariadic() && len(args) == mt.NumIn() {
		out = m.CallSlice(in)
	} else {
		out = m.Call(in)
	}
	switch len(out) {
	case 0:
		return nil
	case 1:
		return fromNative(caller, out[0])
	}
	res := make(tuple, len(out))
	for k, o := range out {
		res[k] = fromNative(caller, o)
	}
	return res
}

var nativeHooks = map[string]func(fr *frame, recv any, args []value) value{}

func toNative(fr *frame, v value, t reflect.Type, what string) reflect.Value {
	switch t.Kind() {
	case reflect.String:
		if _, sym := v.(*symstr); sym && strings.HasPrefix(what, "*regexp.Regexp.") {
			// methods of the host regexp without a symbolic model (FindAll*, ReplaceAll*, ...):
			// the input is split into its feasible concrete values, one path each
			return reflect.ValueOf(fr.concretizeString(v)).Convert(t)
		}
		return reflect.ValueOf(concStr(fr, v, what)).Convert(t)
	case reflect.Bool:
		b, ok := v.(bool)
		if !ok {
			panic(unsupported("symbolic bool passed to " + what))
		}
		return reflect.ValueOf(b)
	case reflect.Int, reflect.Int8, reflect.Int16, reflect.Int32, reflect.Int64:
		if _, ok := v.(*sym); ok {
			panic(unsupported("symbolic int passed to " + what))
		}
		return reflect.ValueOf(asInt64(v)).Convert(t)
	case reflect.Uint, reflect.Uint8, reflect.Uint16, reflect.Uint32, reflect.Uint64, reflect.Uintptr:
		if _, ok := v.(*sym); ok {
			panic(unsupported("symbolic int passed to " + what))
		}
		return reflect.ValueOf(uint64(asInt64(v))).Convert(t)
	case reflect.Slice:
		sl := v.([]value)
		out := reflect.MakeSlice(t, len(sl), len(sl))
		for k, e := range sl {
			out.Index(k).Set(toNative(fr, e, t.Elem(), what))
		}
		if sl == nil {
			return reflect.Zero(t)
		}
		return out
	case reflect.Ptr, reflect.Interface:
		if n, ok := v.(native); ok {
			return reflect.ValueOf(n.v)
		}
		if it, ok := v.(iface); ok {
			if it.t == nil {
				return reflect.Zero(t)
			}
			if n, ok := it.v.(native); ok {
				return reflect.ValueOf(n.v)
			}
		}
	}
	panic(unsupported(fmt.Sprintf("cannot pass %T as %s to %s", v, t, what)))
}

func fromNative(fr *frame, rv reflect.Value) value {
	switch rv.Kind() {
	case reflect.String:
		return rv.String()
	case reflect.Bool:
		return rv.Bool()
	case reflect.Int:
		return int(rv.Int())
	case reflect.Int8:
		return int8(rv.Int())
	case reflect.Int16:
		return int16(rv.Int())
	case reflect.Int32:
		return int32(rv.Int())
	case reflect.Int64:
		return rv.Int()
	case reflect.Uint:
		return uint(rv.Uint())
	case reflect.Uint8:
		return uint8(rv.Uint())
	case reflect.Uint16:
		return uint16(rv.Uint())
	case reflect.Uint32:
		return uint32(rv.Uint())
	case reflect.Uint64:
		return rv.Uint()
	case reflect.Slice:
		if rv.IsNil() {
			return []value(nil)
		}
		out := make([]value, rv.Len())
		for k := range out {
			out[k] = fromNative(fr, rv.Index(k))
		}
		return out
	case reflect.Interface:
		if rv.IsNil() {
			return iface{}
		}
		if err, ok := rv.Interface().(error); ok {
			return fr.newError(err.Error())
		}
		return native{v: rv.Interface()}
	case reflect.Ptr, reflect.Struct, reflect.Map, reflect.Func:
		return native{v: rv.Interface()}
	}
	panic(unsupported("native result of kind " + rv.Kind().String()))
}

// ---- errors.Is / errors.As (the originals use reflectlite) --------------------------------

func (fr *frame) errUnwrap(err iface) []iface {
	if err.t == nil {
		return nil
	}
	f := fr.i.methodOf(err.t, "Unwrap")
	if f == nil {
		return nil
	}
	res := f.Signature.Results()
	if f.Signature.Params().Len() != 0 || res.Len() != 1 {
		return nil
	}
	out := fr.i.call(fr, token.NoPos, f, []value{err.v})
	switch o := out.(type) {
	case iface:
		if o.t == nil {
			return nil
		}
		return []iface{o}
	case []value:
		var l []iface
		for _, e := range o {
			if it, ok := e.(iface); ok && it.t != nil {
				l = append(l, it)
			}
		}
		return l
	}
	return nil
}

func (fr *frame) errorsIs(err, target iface) bool {
	if err.t == nil || target.t == nil {
		return err.t == nil && target.t == nil
	}
	comparable := types.Comparable(target.t)
	var rec func(e iface) bool
	rec = func(e iface) bool {
		if comparable && sameType(e.t, target.t) {
			eq := fr.equals(e.t, e.v, target.v)
			if b, ok := eq.(bool); ok && b {
				return true
			} else if s, ok := eq.(*sym); ok && fr.i.ex.branch(s.t) {
				return true
			}
		}
		if f := fr.i.methodOf(e.t, "Is"); f != nil && f.Signature.Params().Len() == 1 && f.Signature.Results().Len() == 1 {
			if b, ok := fr.i.call(fr, token.NoPos, f, []value{e.v, target}).(bool); ok && b {
				return true
			}
		}
		for _, u := range fr.errUnwrap(e) {
			if rec(u) {
				return true
			}
		}
		return false
	}
	return rec(err)
}

func (fr *frame) errorsAs(err iface, target iface) bool {
	if err.t == nil {
		return false
	}
	if target.t == nil {
		panic(targetPanic{v: "errors: target cannot be nil"})
	}
	pt, ok := target.t.Underlying().(*types.Pointer)
	if !ok {
		panic(targetPanic{v: "errors: target must be a non-nil pointer"})
	}
	T := pt.Elem()
	cell := target.v.(*value)
	var rec func(e iface) bool
	rec = func(e iface) bool {
		if it, ok := T.Underlying().(*types.Interface); ok {
			if types.Implements(e.t, it) {
				fr.i.setCell(cell, e)
				return true
			}
		} else if types.Identical(e.t, T) {
			fr.i.store(T, cell, e.v)
			return true
		}
		if f := fr.i.methodOf(e.t, "As"); f != nil && f.Signature.Params().Len() == 1 && f.Signature.Results().Len() == 1 {
			if b, ok := fr.i.call(fr, token.NoPos, f, []value{e.v, target}).(bool); ok && b {
				return true
			}
		}
		for _, u := range fr.errUnwrap(e) {
			if rec(u) {
				return true
			}
		}
		return false
	}
	return rec(err)
}

func init() {
	reg("errors.Is", func(fr *frame, args []value) value { return fr.errorsIs(args[0].(iface), args[1].(iface)) })
	reg("errors.As", func(fr *frame, args []value) value { return fr.errorsAs(args[0].(iface), args[1].(iface)) })
	skipInit["errors"] = true
	skipInit["internal/abi"] = true
}

// ---- time.Time: formatting and calendar arithmetic are done by the host ---------------------

func toGoTime(v value) time.Time {
	st := v.(structure)
	wall := st[0].(uint64)
	ext := st[1].(int64)
	const unixToInternal = 62135596800
	if wall&(1<<63) != 0 {
		// monotonic form: seconds since 1885 in wall bits 33..62
		sec := int64(wall<<1>>31) + 59453308800 - unixToInternal
		return time.Unix(sec, int64(wall&(1<<30-1))).UTC()
	}
	return time.Unix(ext-unixToInternal, int64(wall&(1<<30-1))).UTC()
}

func init() {
	reg("(time.Time).Format", func(fr *frame, args []value) value {
		return toGoTime(args[0]).Format(concStr(fr, args[1], "time.Format"))
	})
	reg("(time.Time).AppendFormat", func(fr *frame, args []value) value {
		b := concBytes(fr, args[1], "time.AppendFormat")
		return bytesToValues(toGoTime(args[0]).AppendFormat(b, concStr(fr, args[2], "time.AppendFormat")))
	})
	reg("(time.Time).String", func(fr *frame, args []value) value { return toGoTime(args[0]).String() })
	reg("(time.Time).Date", func(fr *frame, args []value) value {
		y, m, d := toGoTime(args[0]).Date()
		return tuple{y, int(m), d}
	})
	reg("(time.Time).Clock", func(fr *frame, args []value) value {
		h, m, s := toGoTime(args[0]).Clock()
		return tuple{h, m, s}
	})
	reg("(time.Time).Weekday", func(fr *frame, args []value) value { return int(toGoTime(args[0]).Weekday()) })
	reg("(time.Time).Year", func(fr *frame, args []value) value { return toGoTime(args[0]).Year() })
	reg("(time.Time).Month", func(fr *frame, args []value) value { return int(toGoTime(args[0]).Month()) })
	reg("(time.Time).Day", func(fr *frame, args []value) value { return toGoTime(args[0]).Day() })
	reg("(time.Time).Hour", func(fr *frame, args []value) value { return toGoTime(args[0]).Hour() })
	reg("(time.Time).Minute", func(fr *frame, args []value) value { return toGoTime(args[0]).Minute() })
	reg("(time.Time).Second", func(fr *frame, args []value) value { return toGoTime(args[0]).Second() })
	reg("(time.Time).YearDay", func(fr *frame, args []value) value { return toGoTime(args[0]).YearDay() })
}

// ---- net.ParseIP / net.ParseCIDR: parsed by the host on concrete text, results imported as plain
// data (net.IP = []byte, *net.IPNet = &struct{IP, Mask}) so that IPNet.Contains is interpreted.

func init() {
	ipVal := func(ip net.IP) value {
		if ip == nil {
			return []value(nil)
		}
		return bytesToValues(ip)
	}
	reg("net.ParseIP", func(fr *frame, args []value) value {
		return ipVal(net.ParseIP(concStr(fr, args[0], "net.ParseIP")))
	})
	reg("net.ParseCIDR", func(fr *frame, args []value) value {
		ip, n, err := net.ParseCIDR(concStr(fr, args[0], "net.ParseCIDR"))
		if err != nil {
			return tuple{[]value(nil), (*value)(nil), fr.newError(err.Error())}
		}
		var cell value = structure{ipVal(n.IP), bytesToValues(n.Mask)}
		return tuple{ipVal(ip), &cell, iface{}}
	})
}
