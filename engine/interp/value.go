// Derived from golang.org/x/tools/go/ssa/interp (BSD-style licence, The Go Authors).
// Adapted into a symbolic executor: concrete structure, symbolic scalars.

package interp

// Values
//
// All interpreter values are "boxed" in the empty interface, value.
// The range of possible dynamic types within value are:
//
// - bool, intN, uintN, uintptr, floatN  --- concrete scalars
// - *sym                                 --- symbolic bool / integer (SMT term + Go kind)
// - string                               --- concrete string
// - *symstr                              --- string of concrete length with symbolic bytes
// - *omap                                --- maps
// - []value --- slices
// - iface --- interfaces.
// - structure --- structs.  Fields are ordered and accessed by numeric indices.
// - array --- arrays.
// - *value --- pointers.
// - *symptr --- address of a slice/array element at a symbolic index
// - *ssa.Function, *ssa.Builtin, *closure --- functions
// - tuple --- as returned by Return, Next, "value,ok" modes, etc.
// - iter --- iterators from 'range' over map or string.
// - native --- opaque handle to a native Go object (e.g. *regexp.Regexp)
// - unsafe.Pointer

import (
	"bytes"
	"fmt"
	"go/types"
	"strings"
	"unsafe"

	"golang.org/x/tools/go/ssa"
	"verif/engine/smt"
)

type value any

type tuple []value

type array []value

type iface struct {
	t types.Type // never an "untyped" type
	v value
}

type structure []value

// sym is a symbolic scalar.
type sym struct {
	t *smt.Term
	k types.BasicKind
}

// symstr is a string whose bytes may be symbolic.  Immutable; slicing shares b.
type symstr struct {
	b []value // uint8 or *sym (Uint8)
}

// symptr is &x[idx] for symbolic idx (already proven in range).
type symptr struct {
	elems []value
	idx   *smt.Term // 64-bit
	elemT types.Type
}

// native wraps an opaque host object.
type native struct {
	v any
}

type iter interface {
	next(fr *frame) tuple
}

type closure struct {
	Fn  *ssa.Function
	Env []value
}

type bad struct{}

func kindWidth(k types.BasicKind) smt.Sort {
	switch k {
	case types.Bool, types.UntypedBool:
		return 0
	case types.Int8, types.Uint8:
		return 8
	case types.Int16, types.Uint16:
		return 16
	case types.Int32, types.Uint32, types.UntypedRune:
		return 32
	case types.Int, types.Int64, types.Uint, types.Uint64, types.Uintptr, types.UntypedInt:
		return 64
	}
	panic(fmt.Sprintf("kindWidth: %v", k))
}

func kindSigned(k types.BasicKind) bool {
	switch k {
	case types.Int, types.Int8, types.Int16, types.Int32, types.Int64, types.UntypedInt, types.UntypedRune:
		return true
	}
	return false
}

func basicKind(t types.Type) (types.BasicKind, bool) {
	if b, ok := t.Underlying().(*types.Basic); ok {
		k := b.Kind()
		switch k {
		case types.UntypedInt:
			k = types.Int
		case types.UntypedRune:
			k = types.Int32
		case types.UntypedBool:
			k = types.Bool
		}
		return k, true
	}
	return 0, false
}

// intBits returns the kind and the value sign- or zero-extended to 64 bits.
func intBits(x value) (types.BasicKind, uint64, bool) {
	switch x := x.(type) {
	case int:
		return types.Int, uint64(x), true
	case int8:
		return types.Int8, uint64(int64(x)), true
	case int16:
		return types.Int16, uint64(int64(x)), true
	case int32:
		return types.Int32, uint64(int64(x)), true
	case int64:
		return types.Int64, uint64(x), true
	case uint:
		return types.Uint, uint64(x), true
	case uint8:
		return types.Uint8, uint64(x), true
	case uint16:
		return types.Uint16, uint64(x), true
	case uint32:
		return types.Uint32, uint64(x), true
	case uint64:
		return types.Uint64, x, true
	case uintptr:
		return types.Uintptr, uint64(x), true
	}
	return 0, 0, false
}

// mkInt builds a concrete integer of kind k from (possibly wider) bits.
func mkInt(k types.BasicKind, bits uint64) value {
	switch k {
	case types.Int, types.UntypedInt:
		return int(bits)
	case types.Int8:
		return int8(bits)
	case types.Int16:
		return int16(bits)
	case types.Int32, types.UntypedRune:
		return int32(bits)
	case types.Int64:
		return int64(bits)
	case types.Uint:
		return uint(bits)
	case types.Uint8:
		return uint8(bits)
	case types.Uint16:
		return uint16(bits)
	case types.Uint32:
		return uint32(bits)
	case types.Uint64:
		return bits
	case types.Uintptr:
		return uintptr(bits)
	}
	panic(fmt.Sprintf("mkInt: bad kind %v", k))
}

// hashString computes the FNV hash of s.
func hashString(s string) int {
	var h uint32
	for i := 0; i < len(s); i++ {
		h ^= uint32(s[i])
		h *= 16777619
	}
	return int(h)
}

// nil-tolerant variant of types.Identical.
func sameType(x, y types.Type) bool {
	if x == nil {
		return y == nil
	}
	return y != nil && types.Identical(x, y)
}

// load returns the value of type T in *addr.
func load(T types.Type, addr *value) value {
	switch T := T.Underlying().(type) {
	case *types.Struct:
		v := (*addr).(structure)
		a := make(structure, len(v))
		for i := range a {
			a[i] = load(T.Field(i).Type(), &v[i])
		}
		return a
	case *types.Array:
		v := (*addr).(array)
		a := make(array, len(v))
		for i := range a {
			a[i] = load(T.Elem(), &v[i])
		}
		return a
	case *types.Basic:
		if T.Kind() == types.String {
			// *(*string)(unsafe.Pointer(&byteSlice)): the string aliases the slice.
			if s, ok := (*addr).([]value); ok {
				return mkStr(s)
			}
		}
		return *addr
	default:
		return *addr
	}
}

// store stores value v of type T into *addr.
func (i *interpreter) store(T types.Type, addr *value, v value) {
	switch T := T.Underlying().(type) {
	case *types.Struct:
		lhs := (*addr).(structure)
		rhs := v.(structure)
		for k := range lhs {
			i.store(T.Field(k).Type(), &lhs[k], rhs[k])
		}
	case *types.Array:
		lhs := (*addr).(array)
		rhs := v.(array)
		for k := range lhs {
			i.store(T.Elem(), &lhs[k], rhs[k])
		}
	default:
		i.setCell(addr, v)
	}
}

// setCell is the single primitive through which existing memory cells are overwritten; it
// journals the old value so that the path can be rolled back.
func (i *interpreter) setCell(addr *value, v value) {
	if i.shared != nil {
		i.sharedStore(addr)
	}
	if i.journalOn {
		i.journal = append(i.journal, undoRec{addr: addr, old: *addr})
	}
	*addr = v
}

// mkStr builds a string value from bytes (shares b when symbolic).
func mkStr(b []value) value {
	allConc := true
	for _, e := range b {
		if _, ok := e.(uint8); !ok {
			allConc = false
			break
		}
	}
	if allConc {
		bs := make([]byte, len(b))
		for i, e := range b {
			bs[i] = e.(uint8)
		}
		return string(bs)
	}
	return &symstr{b: b}
}

func strLen(v value) int {
	switch s := v.(type) {
	case string:
		return len(s)
	case *symstr:
		return len(s.b)
	}
	panic(fmt.Sprintf("strLen: %T", v))
}

// strBytes returns the bytes of a string value as a fresh []value.
func strBytes(v value) []value {
	switch s := v.(type) {
	case string:
		r := make([]value, len(s))
		for i := 0; i < len(s); i++ {
			r[i] = s[i]
		}
		return r
	case *symstr:
		r := make([]value, len(s.b))
		copy(r, s.b)
		return r
	}
	panic(fmt.Sprintf("strBytes: %T", v))
}

func strByteAt(v value, i int) value {
	switch s := v.(type) {
	case string:
		return s[i]
	case *symstr:
		return s.b[i]
	}
	panic("strByteAt")
}

// Prints in the style of built-in println.
func writeValue(buf *bytes.Buffer, v value) {
	switch v := v.(type) {
	case nil, bool, int, int8, int16, int32, int64, uint, uint8, uint16, uint32, uint64, uintptr, float32, float64, string:
		fmt.Fprintf(buf, "%v", v)
	case *sym:
		fmt.Fprintf(buf, "<sym %s>", trunc(v.t.String(), 60))
	case *symstr:
		buf.WriteString("<symstr ")
		for _, e := range v.b {
			if c, ok := e.(uint8); ok {
				fmt.Fprintf(buf, "%q", c)
			} else {
				buf.WriteString("?")
			}
		}
		buf.WriteString(">")
	case *omap:
		buf.WriteString("map[")
		if v != nil {
			for i, e := range v.entries {
				if i > 0 {
					buf.WriteString(" ")
				}
				writeValue(buf, e.key)
				buf.WriteString(":")
				writeValue(buf, e.val)
			}
		}
		buf.WriteString("]")
	case *value:
		if v == nil {
			buf.WriteString("<nil>")
		} else {
			fmt.Fprintf(buf, "%p", v)
		}
	case iface:
		fmt.Fprintf(buf, "(%s, ", v.t)
		writeValue(buf, v.v)
		buf.WriteString(")")
	case structure:
		buf.WriteString("{")
		for i, e := range v {
			if i > 0 {
				buf.WriteString(" ")
			}
			writeValue(buf, e)
		}
		buf.WriteString("}")
	case array:
		buf.WriteString("[")
		for i, e := range v {
			if i > 0 {
				buf.WriteString(" ")
			}
			writeValue(buf, e)
		}
		buf.WriteString("]")
	case []value:
		buf.WriteString("[")
		for i, e := range v {
			if i > 0 {
				buf.WriteString(" ")
			}
			writeValue(buf, e)
		}
		buf.WriteString("]")
	case *ssa.Function, *ssa.Builtin, *closure:
		fmt.Fprintf(buf, "%p", v) // (an address)
	case tuple:
		buf.WriteString("(")
		for i, e := range v {
			if i > 0 {
				buf.WriteString(", ")
			}
			writeValue(buf, e)
		}
		buf.WriteString(")")
	default:
		fmt.Fprintf(buf, "<%T>", v)
	}
}

func trunc(s string, n int) string {
	if len(s) > n {
		return s[:n] + "…"
	}
	return s
}

// Implements printing of Go values in the style of built-in println.
func toString(v value) string {
	var b bytes.Buffer
	writeValue(&b, v)
	return b.String()
}

// ------------------------------------------------------------------------
// Canonical map keys

// canonKey returns a Go-comparable canonical key for v (of static type t) when v is fully
// concrete; ok=false when v contains a symbolic component.
func canonKey(v value) (any, bool) {
	switch x := v.(type) {
	case bool, int, int8, int16, int32, int64, uint, uint8, uint16, uint32, uint64, uintptr, float32, float64, string:
		return x, true
	case *value:
		return x, true
	case unsafe.Pointer:
		return x, true
	case *sym, *symstr:
		return nil, false
	case native:
		return x.v, true
	case *ssa.Function, *closure:
		return x, true
	}
	var sb strings.Builder
	if !writeCanon(&sb, v) {
		return nil, false
	}
	return "\x00C" + sb.String(), true
}

func writeCanon(sb *strings.Builder, v value) bool {
	switch x := v.(type) {
	case *sym, *symstr:
		return false
	case string:
		fmt.Fprintf(sb, "s%d:%s", len(x), x)
	case structure:
		sb.WriteString("{")
		for _, e := range x {
			if !writeCanon(sb, e) {
				return false
			}
			sb.WriteString(",")
		}
		sb.WriteString("}")
	case array:
		sb.WriteString("[")
		for _, e := range x {
			if !writeCanon(sb, e) {
				return false
			}
			sb.WriteString(",")
		}
		sb.WriteString("]")
	case iface:
		if x.t == nil {
			sb.WriteString("<nil>")
		} else {
			fmt.Fprintf(sb, "<%s:", x.t.String())
			if !writeCanon(sb, x.v) {
				return false
			}
			sb.WriteString(">")
		}
	case *value:
		fmt.Fprintf(sb, "p%p", x)
	case unsafe.Pointer:
		fmt.Fprintf(sb, "u%p", x)
	case native:
		fmt.Fprintf(sb, "n%p", x.v)
	case *omap, []value:
		panic(targetPanic{v: "runtime error: hash of unhashable type"})
	default:
		fmt.Fprintf(sb, "%T:%v", x, x)
	}
	return true
}
