// Derived from golang.org/x/tools/go/ssa/interp (BSD-style licence, The Go Authors).

package interp

import (
	"fmt"
	"go/constant"
	"go/token"
	"go/types"
	"math"
	"reflect"
	"unicode/utf8"
	"unsafe"

	"golang.org/x/tools/go/ssa"
	"verif/engine/smt"
)

// If the target program panics, the interpreter panics with this type.
type targetPanic struct {
	v     value
	where string
	pos   string
}

func (p targetPanic) String() string {
	return toString(p.v)
}

func rtPanic(msg string) targetPanic {
	return targetPanic{v: rtError(msg)}
}

// rtError marks run-time errors raised by the Go semantics (index out of range, nil deref...).
type rtError string

var internTab = map[string]string{}

func internString(s string) string {
	if e, ok := internTab[s]; ok {
		return e
	}
	internTab[s] = s
	return s
}

// constValue returns the value of the constant with the
// dynamic type tag appropriate for c.Type().
func constValue(c *ssa.Const) value {
	if c.Value == nil {
		return zero(c.Type()) // typed zero
	}
	if t, ok := c.Type().Underlying().(*types.Basic); ok {
		switch t.Kind() {
		case types.Bool, types.UntypedBool:
			return constant.BoolVal(c.Value)
		case types.Int, types.UntypedInt:
			return int(c.Int64())
		case types.Int8:
			return int8(c.Int64())
		case types.Int16:
			return int16(c.Int64())
		case types.Int32, types.UntypedRune:
			return int32(c.Int64())
		case types.Int64:
			return c.Int64()
		case types.Uint:
			return uint(c.Uint64())
		case types.Uint8:
			return uint8(c.Uint64())
		case types.Uint16:
			return uint16(c.Uint64())
		case types.Uint32:
			return uint32(c.Uint64())
		case types.Uint64:
			return c.Uint64()
		case types.Uintptr:
			return uintptr(c.Uint64())
		case types.Float32:
			return float32(c.Float64())
		case types.Float64, types.UntypedFloat:
			return c.Float64()
		case types.String, types.UntypedString:
			if c.Value.Kind() == constant.String {
				return constant.StringVal(c.Value)
			}
			return string(rune(c.Int64()))
		}
	}
	panic(fmt.Sprintf("constValue: %s", c))
}

// asInt64 converts x, which must be a concrete integer, to an int64.
func asInt64(x value) int64 {
	if _, b, ok := intBits(x); ok {
		return int64(b)
	}
	panic(fmt.Sprintf("cannot convert %T to int64", x))
}

// zero returns a new "zero" value of the specified type.
func zero(t types.Type) value {
	switch t := t.(type) {
	case *types.Basic:
		if t.Kind() == types.UntypedNil {
			panic("untyped nil has no zero value")
		}
		if t.Info()&types.IsUntyped != 0 {
			t = types.Default(t).(*types.Basic)
		}
		switch t.Kind() {
		case types.Bool:
			return false
		case types.Int:
			return int(0)
		case types.Int8:
			return int8(0)
		case types.Int16:
			return int16(0)
		case types.Int32:
			return int32(0)
		case types.Int64:
			return int64(0)
		case types.Uint:
			return uint(0)
		case types.Uint8:
			return uint8(0)
		case types.Uint16:
			return uint16(0)
		case types.Uint32:
			return uint32(0)
		case types.Uint64:
			return uint64(0)
		case types.Uintptr:
			return uintptr(0)
		case types.Float32:
			return float32(0)
		case types.Float64:
			return float64(0)
		case types.Complex64:
			return complex64(0)
		case types.Complex128:
			return complex128(0)
		case types.String:
			return ""
		case types.UnsafePointer:
			return unsafe.Pointer(nil)
		default:
			panic(fmt.Sprint("zero for unexpected type:", t))
		}
	case *types.Pointer:
		return (*value)(nil)
	case *types.Array:
		a := make(array, t.Len())
		for i := range a {
			a[i] = zero(t.Elem())
		}
		return a
	case *types.Named:
		return zero(t.Underlying())
	case *types.Alias:
		return zero(types.Unalias(t))
	case *types.Interface:
		return iface{} // nil type, methodset and value
	case *types.Slice:
		return []value(nil)
	case *types.Struct:
		s := make(structure, t.NumFields())
		for i := range s {
			s[i] = zero(t.Field(i).Type())
		}
		return s
	case *types.Tuple:
		if t.Len() == 1 {
			return zero(t.At(0).Type())
		}
		s := make(tuple, t.Len())
		for i := range s {
			s[i] = zero(t.At(i).Type())
		}
		return s
	case *types.Chan:
		return (*chanStub)(nil)
	case *types.Map:
		return (*omap)(nil)
	case *types.Signature:
		return (*ssa.Function)(nil)
	case *types.TypeParam:
		panic("zero of type parameter")
	}
	panic(fmt.Sprint("zero: unexpected ", t))
}

type chanStub struct{}

// concInt returns a concrete int for v, forking over the feasible values when v is symbolic.
func (fr *frame) concInt(v value) int64 {
	if s, ok := v.(*sym); ok {
		bits := fr.i.ex.concretize(s.t)
		if kindSigned(s.k) {
			return sext(bits, kindWidth(s.k))
		}
		return int64(bits)
	}
	return asInt64(v)
}

func sext(v uint64, w smt.Sort) int64 {
	if w >= 64 {
		return int64(v)
	}
	sh := 64 - uint(w)
	return int64(v<<sh) >> sh
}

// slice returns x[lo:hi:max].  Any of lo, hi and max may be nil.
func (fr *frame) slice(x, lo, hi, max value) value {
	var Len, Cap int
	switch x := x.(type) {
	case string:
		Len = len(x)
	case *symstr:
		Len = len(x.b)
	case []value:
		Len = len(x)
		Cap = cap(x)
	case *value: // *array
		if x == nil {
			panic(rtPanic("invalid memory address or nil pointer dereference"))
		}
		a := (*x).(array)
		Len = len(a)
		Cap = cap(a)
	}

	l := int64(0)
	if lo != nil {
		l = fr.concInt(lo)
	}
	h := int64(Len)
	if hi != nil {
		h = fr.concInt(hi)
	}
	m := int64(Cap)
	if max != nil {
		m = fr.concInt(max)
	}
	isStr := false
	switch x.(type) {
	case string, *symstr:
		isStr = true
		m = int64(Len)
	}
	if l < 0 || h < l || m < h || m > int64(ternInt(isStr, Len, Cap)) {
		panic(rtPanic(fmt.Sprintf("slice bounds out of range [%d:%d:%d] with length %d capacity %d", l, h, m, Len, Cap)))
	}

	switch x := x.(type) {
	case string:
		return x[l:h]
	case *symstr:
		return mkStr(x.b[l:h:h])
	case []value:
		return x[l:h:m]
	case *value: // *array
		a := (*x).(array)
		return []value(a)[l:h:m]
	}
	panic(fmt.Sprintf("slice: unexpected X type: %T", x))
}

func ternInt(c bool, a, b int) int {
	if c {
		return a
	}
	return b
}

func isFloat(x value) bool {
	switch x.(type) {
	case float32, float64:
		return true
	}
	return false
}

func floatBin(op token.Token, x, y value) value {
	switch x := x.(type) {
	case float32:
		y := y.(float32)
		switch op {
		case token.ADD:
			return x + y
		case token.SUB:
			return x - y
		case token.MUL:
			return x * y
		case token.QUO:
			return x / y
		case token.EQL:
			return x == y
		case token.NEQ:
			return x != y
		case token.LSS:
			return x < y
		case token.LEQ:
			return x <= y
		case token.GTR:
			return x > y
		case token.GEQ:
			return x >= y
		}
	case float64:
		y := y.(float64)
		switch op {
		case token.ADD:
			return x + y
		case token.SUB:
			return x - y
		case token.MUL:
			return x * y
		case token.QUO:
			return x / y
		case token.EQL:
			return x == y
		case token.NEQ:
			return x != y
		case token.LSS:
			return x < y
		case token.LEQ:
			return x <= y
		case token.GTR:
			return x > y
		case token.GEQ:
			return x >= y
		}
	}
	panic(fmt.Sprintf("invalid float op %s %T", op, x))
}

func isStrVal(x value) bool {
	switch x.(type) {
	case string, *symstr:
		return true
	}
	return false
}

// binop implements all arithmetic and logical binary operators for
// numeric datatypes and strings.
func (fr *frame) binop(op token.Token, t types.Type, x, y value) value {
	// symbolic scalars
	sx, xs := x.(*sym)
	sy, ys := y.(*sym)
	if xs || ys {
		return fr.symBinop(op, x, y, sx, sy)
	}
	if isFloat(x) {
		return floatBin(op, x, y)
	}
	if isStrVal(x) && isStrVal(y) {
		return fr.strBinop(op, x, y)
	}
	if kx, bx, ok := intBits(x); ok {
		_, by, ok2 := intBits(y)
		if !ok2 {
			panic(fmt.Sprintf("binop %s: %T vs %T", op, x, y))
		}
		signed := kindSigned(kx)
		switch op {
		case token.ADD:
			return mkInt(kx, bx+by)
		case token.SUB:
			return mkInt(kx, bx-by)
		case token.MUL:
			return mkInt(kx, bx*by)
		case token.QUO:
			if by == 0 {
				panic(rtPanic("integer divide by zero"))
			}
			if signed {
				if int64(by) == -1 {
					return mkInt(kx, -bx)
				}
				return mkInt(kx, uint64(int64(bx)/int64(by)))
			}
			return mkInt(kx, bx/by)
		case token.REM:
			if by == 0 {
				panic(rtPanic("integer divide by zero"))
			}
			if signed {
				if int64(by) == -1 {
					return mkInt(kx, 0)
				}
				return mkInt(kx, uint64(int64(bx)%int64(by)))
			}
			return mkInt(kx, bx%by)
		case token.AND:
			return mkInt(kx, bx&by)
		case token.OR:
			return mkInt(kx, bx|by)
		case token.XOR:
			return mkInt(kx, bx^by)
		case token.AND_NOT:
			return mkInt(kx, bx&^by)
		case token.SHL:
			ky, _, _ := intBits(y)
			if kindSigned(ky) && int64(by) < 0 {
				panic(rtPanic("negative shift amount"))
			}
			if by >= 64 {
				return mkInt(kx, 0)
			}
			return mkInt(kx, bx<<by)
		case token.SHR:
			ky, _, _ := intBits(y)
			if kindSigned(ky) && int64(by) < 0 {
				panic(rtPanic("negative shift amount"))
			}
			if signed {
				if by >= 64 {
					by = 63
				}
				return mkInt(kx, uint64(int64(bx)>>by))
			}
			if by >= 64 {
				return mkInt(kx, 0)
			}
			return mkInt(kx, bx>>by)
		case token.EQL:
			return bx == by
		case token.NEQ:
			return bx != by
		case token.LSS:
			if signed {
				return int64(bx) < int64(by)
			}
			return bx < by
		case token.LEQ:
			if signed {
				return int64(bx) <= int64(by)
			}
			return bx <= by
		case token.GTR:
			if signed {
				return int64(bx) > int64(by)
			}
			return bx > by
		case token.GEQ:
			if signed {
				return int64(bx) >= int64(by)
			}
			return bx >= by
		}
		panic(fmt.Sprintf("invalid int binary op: %s", op))
	}
	switch op {
	case token.EQL:
		return fr.eqnil(t, x, y)
	case token.NEQ:
		return fr.not(fr.eqnil(t, x, y))
	case token.AND, token.OR, token.XOR:
		if bx, ok := x.(bool); ok {
			by := y.(bool)
			switch op {
			case token.AND:
				return bx && by
			case token.OR:
				return bx || by
			default:
				return bx != by
			}
		}
	}
	panic(fmt.Sprintf("invalid binary op: %T %s %T", x, op, y))
}

func (fr *frame) not(v value) value {
	switch b := v.(type) {
	case bool:
		return !b
	case *sym:
		return mkSymBool(fr.i.ctx.Not(b.t))
	}
	panic("not: non-bool")
}

func mkSymBool(t *smt.Term) value {
	if t.IsConst() {
		return t.Val == 1
	}
	return &sym{t: t, k: types.Bool}
}

func mkSymInt(t *smt.Term, k types.BasicKind) value {
	if t.IsConst() {
		v := t.Val
		if kindSigned(k) {
			v = uint64(sext(v, t.Sort))
		}
		return mkInt(k, v)
	}
	return &sym{t: t, k: k}
}

// termOf converts a scalar value to a term (of the width of its kind).
func (fr *frame) termOf(v value) *smt.Term {
	return fr.i.termOf(v)
}

func (i *interpreter) termOf(v value) *smt.Term {
	switch x := v.(type) {
	case *sym:
		return x.t
	case bool:
		return i.ctx.Bool(x)
	}
	if k, b, ok := intBits(v); ok {
		return i.ctx.BV(b, kindWidth(k))
	}
	panic(fmt.Sprintf("termOf: %T", v))
}

func valueKind(v value) types.BasicKind {
	switch x := v.(type) {
	case *sym:
		return x.k
	case bool:
		return types.Bool
	}
	if k, _, ok := intBits(v); ok {
		return k
	}
	panic(fmt.Sprintf("valueKind: %T", v))
}

func (fr *frame) symBinop(op token.Token, x, y value, sx, sy *sym) value {
	c := fr.i.ctx
	kx := valueKind(x)
	if kx == types.Bool {
		a, b := fr.termOf(x), fr.termOf(y)
		switch op {
		case token.EQL:
			return mkSymBool(c.Eq(a, b))
		case token.NEQ, token.XOR:
			return mkSymBool(c.Not(c.Eq(a, b)))
		case token.AND, token.LAND:
			return mkSymBool(c.And(a, b))
		case token.OR, token.LOR:
			return mkSymBool(c.Or(a, b))
		}
		panic("symbolic bool op " + op.String())
	}
	a := fr.termOf(x)
	w := kindWidth(kx)
	signed := kindSigned(kx)
	if op == token.SHL || op == token.SHR {
		// shift count may have a different type
		ky := valueKind(y)
		b := fr.termOf(y)
		if kindSigned(ky) {
			neg := c.Bin(smt.OpSlt, b, c.BV(0, b.Sort))
			fr.i.ex.checkNoPanic(c.Not(neg), "negative shift amount")
		}
		// saturate count to width w
		var cnt *smt.Term
		if b.Sort > w {
			big := c.Not(c.Bin(smt.OpUlt, b, c.BV(uint64(w), b.Sort)))
			cnt = c.Ite(big, c.BV(uint64(w), w), c.Extract(b, int(w)-1, 0))
		} else {
			cnt = c.Zext(b, w)
		}
		switch {
		case op == token.SHL:
			return mkSymInt(c.Bin(smt.OpShl, a, cnt), kx)
		case signed:
			return mkSymInt(c.Bin(smt.OpAshr, a, cnt), kx)
		default:
			return mkSymInt(c.Bin(smt.OpLshr, a, cnt), kx)
		}
	}
	b := fr.termOf(y)
	if b.Sort != a.Sort {
		panic(fmt.Sprintf("symBinop width mismatch %s: %T(%d) %T(%d)", op, x, a.Sort, y, b.Sort))
	}
	switch op {
	case token.ADD:
		return mkSymInt(c.Bin(smt.OpAdd, a, b), kx)
	case token.SUB:
		return mkSymInt(c.Bin(smt.OpSub, a, b), kx)
	case token.MUL:
		return mkSymInt(c.Bin(smt.OpMul, a, b), kx)
	case token.QUO, token.REM:
		fr.i.ex.checkNoPanic(c.Not(c.Eq(b, c.BV(0, w))), "integer divide by zero")
		var o smt.Op
		switch {
		case op == token.QUO && signed:
			o = smt.OpSdiv
		case op == token.QUO:
			o = smt.OpUdiv
		case signed:
			o = smt.OpSrem
		default:
			o = smt.OpUrem
		}
		return mkSymInt(c.Bin(o, a, b), kx)
	case token.AND:
		return mkSymInt(c.Bin(smt.OpBAnd, a, b), kx)
	case token.OR:
		return mkSymInt(c.Bin(smt.OpBOr, a, b), kx)
	case token.XOR:
		return mkSymInt(c.Bin(smt.OpBXor, a, b), kx)
	case token.AND_NOT:
		return mkSymInt(c.Bin(smt.OpBAnd, a, c.BNot(b)), kx)
	case token.EQL:
		return mkSymBool(c.Eq(a, b))
	case token.NEQ:
		return mkSymBool(c.Not(c.Eq(a, b)))
	case token.LSS:
		if signed {
			return mkSymBool(c.Bin(smt.OpSlt, a, b))
		}
		return mkSymBool(c.Bin(smt.OpUlt, a, b))
	case token.LEQ:
		if signed {
			return mkSymBool(c.Bin(smt.OpSle, a, b))
		}
		return mkSymBool(c.Bin(smt.OpUle, a, b))
	case token.GTR:
		if signed {
			return mkSymBool(c.Bin(smt.OpSlt, b, a))
		}
		return mkSymBool(c.Bin(smt.OpUlt, b, a))
	case token.GEQ:
		if signed {
			return mkSymBool(c.Bin(smt.OpSle, b, a))
		}
		return mkSymBool(c.Bin(smt.OpUle, b, a))
	}
	panic("symbolic int op " + op.String())
}

// strEqTerm returns the term for x == y on strings of equal length.
func (fr *frame) strEqTerm(x, y value) *smt.Term {
	c := fr.i.ctx
	n := strLen(x)
	if n != strLen(y) {
		return c.False
	}
	r := c.True
	for i := 0; i < n; i++ {
		r = c.And(r, c.Eq(fr.termOf(strByteAt(x, i)), fr.termOf(strByteAt(y, i))))
		if r == c.False {
			break
		}
	}
	return r
}

// strLessTerm returns the term for x < y (lexicographic, bytewise).
func (fr *frame) strLessTerm(x, y value, orEq bool) *smt.Term {
	c := fr.i.ctx
	nx, ny := strLen(x), strLen(y)
	n := nx
	if ny < n {
		n = ny
	}
	// from the end: res = (tail comparison when common prefix is equal)
	var res *smt.Term
	switch {
	case nx < ny:
		res = c.True
	case nx > ny:
		res = c.False
	default:
		res = c.Bool(orEq)
	}
	for i := n - 1; i >= 0; i-- {
		a, b := fr.termOf(strByteAt(x, i)), fr.termOf(strByteAt(y, i))
		res = c.Ite(c.Eq(a, b), res, c.Bin(smt.OpUlt, a, b))
	}
	return res
}

func (fr *frame) strBinop(op token.Token, x, y value) value {
	xs, xc := x.(string)
	ys, yc := y.(string)
	if xc && yc {
		switch op {
		case token.ADD:
			return xs + ys
		case token.EQL:
			return xs == ys
		case token.NEQ:
			return xs != ys
		case token.LSS:
			return xs < ys
		case token.LEQ:
			return xs <= ys
		case token.GTR:
			return xs > ys
		case token.GEQ:
			return xs >= ys
		}
		panic("bad string op " + op.String())
	}
	c := fr.i.ctx
	switch op {
	case token.ADD:
		if strLen(x) == 0 {
			return y
		}
		if strLen(y) == 0 {
			return x
		}
		return mkStr(append(strBytes(x), strBytes(y)...))
	case token.EQL:
		return mkSymBool(fr.strEqTerm(x, y))
	case token.NEQ:
		return mkSymBool(c.Not(fr.strEqTerm(x, y)))
	case token.LSS:
		return mkSymBool(fr.strLessTerm(x, y, false))
	case token.LEQ:
		return mkSymBool(fr.strLessTerm(x, y, true))
	case token.GTR:
		return mkSymBool(fr.strLessTerm(y, x, false))
	case token.GEQ:
		return mkSymBool(fr.strLessTerm(y, x, true))
	}
	panic("bad string op " + op.String())
}

// eqnil returns the comparison x == y using the equivalence relation
// appropriate for type t.
// If t is a reference type, at most one of x or y may be a nil value
// of that type.
func (fr *frame) eqnil(t types.Type, x, y value) value {
	switch t.Underlying().(type) {
	case *types.Map, *types.Signature, *types.Slice:
		// Since these types don't support comparison,
		// one of the operands must be a literal nil.
		switch x := x.(type) {
		case *omap:
			return (x != nil) == (y.(*omap) != nil)
		case *ssa.Function:
			switch y := y.(type) {
			case *ssa.Function:
				return (x != nil) == (y != nil)
			case *closure:
				return x != nil
			case native:
				return x != nil
			}
		case *closure:
			return (x != nil) == (y.(*ssa.Function) != nil)
		case native:
			if f, ok := y.(*ssa.Function); ok {
				return f != nil
			}
		case []value:
			return (x != nil) == (y.([]value) != nil)
		}
		panic(fmt.Sprintf("eqnil(%s): illegal dynamic type: %T", t, x))
	}

	return fr.equals(t, x, y)
}

// equals returns x == y (a bool or a symbolic bool) according to Go's
// linguistic equivalence relation for type t.
func (fr *frame) equals(t types.Type, x, y value) value {
	c := fr.i.ctx
	switch x := x.(type) {
	case *sym:
		return fr.symBinop(token.EQL, x, y, nil, nil)
	case bool:
		if _, ok := y.(*sym); ok {
			return fr.symBinop(token.EQL, x, y, nil, nil)
		}
		return x == y.(bool)
	case float32:
		return x == y.(float32)
	case float64:
		return x == y.(float64)
	case string, *symstr:
		return fr.strBinop(token.EQL, x, y)
	case *value:
		switch y := y.(type) {
		case *symptr:
			return false
		case native:
			return x == nil && nativeIsNil(y)
		}
		return x == y.(*value)
	case *symptr:
		panic(unsupported("comparison of symbolic pointer"))
	case unsafe.Pointer:
		return x == y.(unsafe.Pointer)
	case *chanStub:
		return x == y.(*chanStub)
	case native:
		switch y := y.(type) {
		case *value:
			return y == nil && nativeIsNil(x)
		case native:
			if nativeIsNil(x) || nativeIsNil(y) {
				return nativeIsNil(x) && nativeIsNil(y)
			}
			return x.v == y.v
		}
		return false
	case structure:
		y := y.(structure)
		tStruct := t.Underlying().(*types.Struct)
		r := c.True
		for i, n := 0, tStruct.NumFields(); i < n; i++ {
			if f := tStruct.Field(i); f.Name() != "_" {
				r = c.And(r, fr.termOf(fr.equals(f.Type(), x[i], y[i])))
				if r == c.False {
					return false
				}
			}
		}
		return mkSymBool(r)
	case array:
		y := y.(array)
		tElt := t.Underlying().(*types.Array).Elem()
		r := c.True
		for i, xi := range x {
			r = c.And(r, fr.termOf(fr.equals(tElt, xi, y[i])))
			if r == c.False {
				return false
			}
		}
		return mkSymBool(r)
	case iface:
		y := y.(iface)
		if !sameType(x.t, y.t) {
			return false
		}
		if x.t == nil {
			return true
		}
		return fr.equals(x.t, x.v, y.v)
	case *ssa.Function, *closure, *omap, []value:
		panic(targetPanic{v: rtError(fmt.Sprintf("runtime error: comparing uncomparable type %s", t))})
	}
	if _, bx, ok := intBits(x); ok {
		if _, isSym := y.(*sym); isSym {
			return fr.symBinop(token.EQL, x, y, nil, nil)
		}
		_, by, _ := intBits(y)
		return bx == by
	}
	panic(fmt.Sprintf("comparing uncomparable type %s (%T)", t, x))
}

func (fr *frame) unop(instr *ssa.UnOp, x value) value {
	switch instr.Op {
	case token.ARROW: // receive
		panic(unsupported("channel receive"))
	case token.SUB:
		switch x := x.(type) {
		case float32:
			return -x
		case float64:
			return -x
		case *sym:
			return mkSymInt(fr.i.ctx.Neg(x.t), x.k)
		}
		if k, b, ok := intBits(x); ok {
			return mkInt(k, -b)
		}
	case token.MUL:
		return fr.loadPtr(instr.X.Type().Underlying().(*types.Pointer).Elem(), x)
	case token.NOT:
		return fr.not(x)
	case token.XOR:
		if s, ok := x.(*sym); ok {
			return mkSymInt(fr.i.ctx.BNot(s.t), s.k)
		}
		if k, b, ok := intBits(x); ok {
			return mkInt(k, ^b)
		}
	}
	panic(fmt.Sprintf("invalid unary op %s %T", instr.Op, x))
}

func (fr *frame) loadPtr(T types.Type, p value) value {
	switch p := p.(type) {
	case *value:
		if p == nil {
			panic(rtPanic("invalid memory address or nil pointer dereference"))
		}
		return load(T, p)
	case *symptr:
		return fr.symLoad(p)
	}
	panic(fmt.Sprintf("load through %T", p))
}

func (fr *frame) storePtr(T types.Type, p value, v value) {
	switch p := p.(type) {
	case *value:
		if p == nil {
			panic(rtPanic("invalid memory address or nil pointer dereference"))
		}
		fr.i.store(T, p, v)
		return
	case *symptr:
		fr.symStore(p, v)
		return
	}
	panic(fmt.Sprintf("store through %T", p))
}

// symLoad reads elems[idx] as an ite chain (scalar elements only).
func (fr *frame) symLoad(p *symptr) value {
	c := fr.i.ctx
	k, ok := basicKind(p.elemT)
	if !ok || k == types.String {
		// non-scalar element: concretize the index
		i := fr.i.ex.concretize(p.idx)
		return load(p.elemT, &p.elems[i])
	}
	n := len(p.elems)
	allConc := true
	for _, e := range p.elems {
		if _, isSym := e.(*sym); isSym {
			allConc = false
			break
		}
	}
	if !allConc && n > 2 {
		// symbolic index into symbolic data: split on the index (what un-merged execution
		// would have done) rather than nest ite terms
		if fr.i.ex.local != nil {
			panic(localFail{"symbolic index into symbolic data"})
		}
		i := fr.i.ex.concretize(p.idx)
		return load(p.elemT, &p.elems[i])
	}
	if n > 4 {
		if t, ok := fr.tableTerm(p.elems, k, p.idx); ok {
			if k == types.Bool {
				return mkSymBool(t)
			}
			return mkSymInt(t, k)
		}
		if n > 16 {
			// large irregular table: fork over the feasible indices instead of building a huge ite
			if fr.i.ex.local != nil {
				panic(localFail{"large table lookup"})
			}
			i := fr.i.ex.concretize(p.idx)
			return load(p.elemT, &p.elems[i])
		}
	}
	res := fr.termOf(p.elems[n-1])
	for i := n - 2; i >= 0; i-- {
		res = c.Ite(c.Eq(p.idx, c.BV(uint64(i), 64)), fr.termOf(p.elems[i]), res)
	}
	if k == types.Bool {
		return mkSymBool(res)
	}
	return mkSymInt(res, k)
}

func (fr *frame) symStore(p *symptr, v value) {
	c := fr.i.ctx
	k, ok := basicKind(p.elemT)
	if !ok || k == types.String {
		i := fr.i.ex.concretize(p.idx)
		fr.i.store(p.elemT, &p.elems[i], v)
		return
	}
	nv := fr.termOf(v)
	for i := range p.elems {
		old := fr.termOf(p.elems[i])
		t := c.Ite(c.Eq(p.idx, c.BV(uint64(i), 64)), nv, old)
		if k == types.Bool {
			fr.i.setCell(&p.elems[i], mkSymBool(t))
		} else {
			fr.i.setCell(&p.elems[i], mkSymInt(t, k))
		}
	}
}

// typeAssert checks whether dynamic type of itf is instr.AssertedType.
// It returns the extracted value on success, and panics on failure,
// unless instr.CommaOk, in which case it always returns a "value,ok" tuple.
func (fr *frame) typeAssert(instr *ssa.TypeAssert, itf iface) value {
	var v value
	err := ""
	if itf.t == nil {
		err = fmt.Sprintf("interface conversion: interface is nil, not %s", instr.AssertedType)

	} else if idst, ok := instr.AssertedType.Underlying().(*types.Interface); ok {
		v = itf
		err = checkInterface(idst, itf)

	} else if types.Identical(itf.t, instr.AssertedType) {
		v = itf.v // extract value

	} else {
		err = fmt.Sprintf("interface conversion: interface is %s, not %s", itf.t, instr.AssertedType)
	}

	if err != "" {
		if !instr.CommaOk {
			panic(rtPanic(err))
		}
		return tuple{zero(instr.AssertedType), false}
	}
	if instr.CommaOk {
		return tuple{v, true}
	}
	return v
}

// growCap mirrors runtime.growslice's capacity policy closely enough for aliasing questions
// (whether an append writes into shared spare capacity only depends on cap-len, which is exact).
func growCap(oldCap, needed int) int {
	newcap := oldCap
	doublecap := newcap + newcap
	if needed > doublecap {
		return needed
	}
	const threshold = 256
	if oldCap < threshold {
		return doublecap
	}
	for {
		newcap += (newcap + 3*threshold) >> 2
		if newcap >= needed {
			break
		}
	}
	return newcap
}

func (fr *frame) appendValues(dst []value, src []value) []value {
	if len(src) == 0 {
		return dst
	}
	n := len(dst) + len(src)
	if n <= cap(dst) {
		// in place: journal the cells that are overwritten
		ext := dst[:n]
		for k, e := range src {
			fr.i.setCell(&ext[len(dst)+k], e)
		}
		return ext
	}
	nc := growCap(cap(dst), n)
	res := make([]value, n, nc)
	copy(res, dst)
	copy(res[len(dst):], src)
	fr.i.noteAlloc()
	return res
}

// callBuiltin interprets a call to builtin fn with arguments args,
// returning its result.
func (fr *frame) callBuiltin(caller *frame, fn *ssa.Builtin, args []value) value {
	switch fn.Name() {
	case "append":
		if len(args) == 1 {
			return args[0]
		}
		switch s := args[1].(type) {
		case string, *symstr:
			// append([]byte, ...string) []byte
			return fr.appendValues(args[0].([]value), strBytes(s))
		}
		// append([]T, ...[]T) []T
		src := args[1].([]value)
		// copy elements by value (aggregates must not alias)
		return fr.appendValues(args[0].([]value), copyElems(src))

	case "copy": // copy([]T, []T) int or copy([]byte, string) int
		var src []value
		switch s := args[1].(type) {
		case string, *symstr:
			src = strBytes(s)
		default:
			src = copyElems(args[1].([]value))
		}
		dst := args[0].([]value)
		n := len(dst)
		if len(src) < n {
			n = len(src)
		}
		for k := 0; k < n; k++ {
			fr.i.setCell(&dst[k], src[k])
		}
		return n

	case "close": // close(chan T)
		panic(unsupported("close(chan)"))

	case "delete": // delete(map[K]value, K)
		m := args[0].(*omap)
		if m != nil {
			fr.mapDelete(m, args[1])
		}
		return nil

	case "print", "println": // print(any, ...)
		return nil

	case "len":
		switch x := args[0].(type) {
		case string:
			return len(x)
		case *symstr:
			return len(x.b)
		case array:
			return len(x)
		case *value:
			return len((*x).(array))
		case []value:
			return len(x)
		case *omap:
			if x == nil {
				return 0
			}
			return len(x.entries)
		case *chanStub:
			return 0
		default:
			panic(fmt.Sprintf("len: illegal operand: %T", x))
		}

	case "cap":
		switch x := args[0].(type) {
		case array:
			return cap(x)
		case *value:
			return cap((*x).(array))
		case []value:
			return cap(x)
		default:
			panic(fmt.Sprintf("cap: illegal operand: %T", x))
		}

	case "min":
		x := args[0]
		for _, a := range args[1:] {
			x = fr.selectVal(fr.binop(token.LSS, nil, a, x), a, x)
		}
		return x
	case "max":
		x := args[0]
		for _, a := range args[1:] {
			x = fr.selectVal(fr.binop(token.GTR, nil, a, x), a, x)
		}
		return x

	case "clear":
		switch x := args[0].(type) {
		case *omap:
			if x != nil {
				fr.mapClear(x)
			}
		case []value:
			elemT := fn.Type().(*types.Signature).Params().At(0).Type().Underlying().(*types.Slice).Elem()
			for k := range x {
				fr.i.setCell(&x[k], zero(elemT))
			}
		}
		return nil

	case "panic":
		panic(targetPanic{v: args[0]})

	case "recover":
		return doRecover(caller)

	case "ssa:wrapnilchk":
		recv := args[0]
		if recv.(*value) == nil {
			recvType := args[1]
			methodName := args[2]
			panic(rtPanic(fmt.Sprintf("value method (%s).%s called using nil *%s pointer",
				recvType, methodName, recvType)))
		}
		return recv

	case "ssa:deferstack":
		return &caller.defers
	}

	if v, ok := fr.unsafeBuiltin(fn.Name(), fn, args); ok {
		return v
	}
	panic(unsupported("unknown built-in: " + fn.Name()))
}

// selectVal returns cond ? a : b for scalars.
func (fr *frame) selectVal(cond value, a, b value) value {
	switch c := cond.(type) {
	case bool:
		if c {
			return a
		}
		return b
	case *sym:
		k := valueKind(a)
		t := fr.i.ctx.Ite(c.t, fr.termOf(a), fr.termOf(b))
		if k == types.Bool {
			return mkSymBool(t)
		}
		return mkSymInt(t, k)
	}
	panic("selectVal")
}

// copyElems copies slice elements by value (structs and arrays are deep-copied one level, as
// Go assignment does).
func copyElems(src []value) []value {
	res := make([]value, len(src))
	for i, e := range src {
		res[i] = copyVal(e)
	}
	return res
}

func copyVal(v value) value {
	switch x := v.(type) {
	case structure:
		a := make(structure, len(x))
		for i := range x {
			a[i] = copyVal(x[i])
		}
		return a
	case array:
		a := make(array, len(x))
		for i := range x {
			a[i] = copyVal(x[i])
		}
		return a
	}
	return v
}

type stringIter struct {
	s   value
	pos int
}

func (it *stringIter) next(fr *frame) tuple {
	n := strLen(it.s)
	if it.pos >= n {
		return tuple{false, nil, nil}
	}
	start := it.pos
	if s, ok := it.s.(string); ok {
		r, sz := utf8.DecodeRuneInString(s[it.pos:])
		it.pos += sz
		return tuple{true, start, r}
	}
	// symbolic: decode through the real unicode/utf8 code
	rest := fr.slice(it.s, start, nil, nil)
	res := fr.i.callByName(fr, "unicode/utf8.DecodeRuneInString", []value{rest}).(tuple)
	it.pos += int(fr.concInt(res[1]))
	return tuple{true, start, res[0]}
}

func (fr *frame) rangeIter(x value) iter {
	switch x := x.(type) {
	case *omap:
		return fr.newMapIter(x)
	case string, *symstr:
		return &stringIter{s: x}
	}
	panic(fmt.Sprintf("cannot range over %T", x))
}

// conv converts the value x of type t_src to type t_dst and returns
// the result.
func (fr *frame) conv(t_dst, t_src types.Type, x value) value {
	ut_src := t_src.Underlying()
	ut_dst := t_dst.Underlying()

	switch ut_src := ut_src.(type) {
	case *types.Pointer:
		switch ut_dst := ut_dst.(type) {
		case *types.Basic:
			if ut_dst.Kind() == types.UnsafePointer {
				return unsafe.Pointer(x.(*value))
			}
		}

	case *types.Slice:
		// []byte or []rune -> string
		switch ut_src.Elem().Underlying().(*types.Basic).Kind() {
		case types.Byte:
			x := x.([]value)
			b := make([]value, len(x))
			copy(b, x)
			return mkStr(b)

		case types.Rune:
			x := x.([]value)
			r := make([]rune, 0, len(x))
			for i := range x {
				r = append(r, rune(fr.concInt(x[i])))
			}
			return string(r)
		}

	case *types.Basic:
		if isStrVal(x) {
			switch ut_dst := ut_dst.(type) {
			case *types.Slice:
				switch ut_dst.Elem().Underlying().(*types.Basic).Kind() {
				case types.Rune:
					s, ok := x.(string)
					if !ok {
						panic(unsupported("[]rune(symbolic string)"))
					}
					var res []value
					for _, r := range s {
						res = append(res, r)
					}
					return res
				case types.Byte:
					fr.i.noteAlloc()
					return strBytes(x)
				}
			case *types.Basic:
				if ut_dst.Kind() == types.String {
					return x
				}
			}
			break
		}

		if ut_src.Kind() == types.UnsafePointer {
			p := x.(unsafe.Pointer)
			if _, ok := ut_dst.(*types.Pointer); ok {
				return (*value)(p)
			}
			if b, ok := ut_dst.(*types.Basic); ok && b.Kind() == types.Uintptr {
				return uintptr(p)
			}
			break
		}

		dk, ok := basicKind(t_dst)
		if !ok {
			break
		}

		// integer -> string
		if ut_src.Info()&types.IsInteger != 0 && dk == types.String {
			return string(rune(fr.concInt(x)))
		}

		if s, ok := x.(*sym); ok {
			return fr.symConv(s, dk)
		}
		if b, ok := x.(bool); ok && dk == types.Bool {
			return b
		}
		// numeric conversions
		switch xv := x.(type) {
		case float32:
			return floatTo(float64(xv), dk)
		case float64:
			return floatTo(xv, dk)
		}
		if sk, bits, ok := intBits(x); ok {
			switch dk {
			case types.Float32:
				if kindSigned(sk) {
					return float32(int64(bits))
				}
				return float32(bits)
			case types.Float64:
				if kindSigned(sk) {
					return float64(int64(bits))
				}
				return float64(bits)
			case types.UnsafePointer:
				return unsafe.Pointer(nil)
			}
			return mkInt(dk, bits)
		}
	}

	panic(fmt.Sprintf("unsupported conversion: %s  -> %s, dynamic type %T", t_src, t_dst, x))
}

func floatTo(f float64, dk types.BasicKind) value {
	switch dk {
	case types.Float32:
		return float32(f)
	case types.Float64:
		return f
	}
	if kindSigned(dk) {
		return mkInt(dk, uint64(int64(f)))
	}
	if f < 0 {
		return mkInt(dk, uint64(int64(f)))
	}
	if f >= math.MaxInt64 {
		return mkInt(dk, uint64(f))
	}
	return mkInt(dk, uint64(f))
}

func (fr *frame) symConv(s *sym, dk types.BasicKind) value {
	c := fr.i.ctx
	if s.k == types.Bool {
		if dk == types.Bool {
			return s
		}
		panic("conv bool->int")
	}
	switch dk {
	case types.Float32, types.Float64:
		panic(unsupported("symbolic int -> float"))
	}
	sw, dw := kindWidth(s.k), kindWidth(dk)
	var t *smt.Term
	switch {
	case dw == sw:
		t = s.t
	case dw < sw:
		t = c.Extract(s.t, int(dw)-1, 0)
	case kindSigned(s.k):
		t = c.Sext(s.t, dw)
	default:
		t = c.Zext(s.t, dw)
	}
	return mkSymInt(t, dk)
}

// sliceToArrayPointer converts the value x of type slice to type t_dst
// a pointer to array and returns the result.
func sliceToArrayPointer(t_dst, t_src types.Type, x value) value {
	if _, ok := t_src.Underlying().(*types.Slice); ok {
		if ptr, ok := t_dst.Underlying().(*types.Pointer); ok {
			if arr, ok := ptr.Elem().Underlying().(*types.Array); ok {
				x := x.([]value)
				if arr.Len() > int64(len(x)) {
					panic(rtPanic("cannot convert slice to array pointer: length mismatch"))
				}
				if x == nil {
					return zero(t_dst)
				}
				v := value(array(x[:arr.Len()]))
				return &v
			}
		}
	}

	panic(fmt.Sprintf("unsupported conversion: %s  -> %s, dynamic type %T", t_src, t_dst, x))
}

// checkInterface checks that the method set of x implements the
// interface itype.
// On success it returns "", on failure, an error message.
func checkInterface(itype *types.Interface, x iface) string {
	if meth, _ := types.MissingMethod(x.t, itype, true); meth != nil {
		return fmt.Sprintf("interface conversion: %v is not %v: missing method %s",
			x.t, itype, meth.Name())
	}
	return "" // ok
}

func nativeIsNil(n native) bool {
	if n.v == nil {
		return true
	}
	rv := reflect.ValueOf(n.v)
	switch rv.Kind() {
	case reflect.Ptr, reflect.Map, reflect.Slice, reflect.Func, reflect.Interface, reflect.Chan:
		return rv.IsNil()
	}
	return false
}
