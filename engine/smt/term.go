// Package smt: hash-consed QF_BV terms with local simplification,
// evaluation under a model and SMT-LIB2 printing.
package smt

import (
	"fmt"
	"strings"
)

// Sort: 0 = Bool, n>0 = (_ BitVec n), n <= 64.
type Sort uint8

type Op uint8

const (
	OpConst Op = iota
	OpVar
	OpNot
	OpAnd
	OpOr
	OpEq
	OpIte
	OpAdd
	OpSub
	OpMul
	OpUdiv
	OpUrem
	OpSdiv
	OpSrem
	OpBAnd
	OpBOr
	OpBXor
	OpBNot
	OpNeg
	OpShl
	OpLshr
	OpAshr
	OpUlt
	OpUle
	OpSlt
	OpSle
	OpExtract // P1=hi P2=lo
	OpConcat
	OpZext // P1 = extra bits
	OpSext // P1 = extra bits
)

var opNames = map[Op]string{
	OpNot: "not", OpAnd: "and", OpOr: "or", OpEq: "=", OpIte: "ite",
	OpAdd: "bvadd", OpSub: "bvsub", OpMul: "bvmul", OpUdiv: "bvudiv", OpUrem: "bvurem",
	OpSdiv: "bvsdiv", OpSrem: "bvsrem", OpBAnd: "bvand", OpBOr: "bvor", OpBXor: "bvxor",
	OpBNot: "bvnot", OpNeg: "bvneg", OpShl: "bvshl", OpLshr: "bvlshr", OpAshr: "bvashr",
	OpUlt: "bvult", OpUle: "bvule", OpSlt: "bvslt", OpSle: "bvsle", OpConcat: "concat",
}

type Term struct {
	ID   int
	Op   Op
	Sort Sort
	Args []*Term
	Val  uint64 // OpConst value (Bool: 0/1), masked to width
	Name string // OpVar
	P1   int
	P2   int

	evalEpoch uint64
	evalVal   uint64
}

type key struct {
	op         Op
	sort       Sort
	a0, a1, a2 int
	val        uint64
	name       string
	p1, p2     int
}

// Ctx is a hash-consing context.  Not safe for concurrent use: one per worker.
type Ctx struct {
	tab   map[key]*Term
	terms []*Term
	Vars  []*Term
	True  *Term
	False *Term
	epoch uint64
}

func NewCtx() *Ctx {
	c := &Ctx{tab: map[key]*Term{}}
	c.False = c.mk(&Term{Op: OpConst, Sort: 0, Val: 0})
	c.True = c.mk(&Term{Op: OpConst, Sort: 0, Val: 1})
	return c
}

func (c *Ctx) NumTerms() int { return len(c.terms) }

func (c *Ctx) mk(t *Term) *Term {
	k := key{op: t.Op, sort: t.Sort, val: t.Val, name: t.Name, p1: t.P1, p2: t.P2, a0: -1, a1: -1, a2: -1}
	switch len(t.Args) {
	case 3:
		k.a2 = t.Args[2].ID
		fallthrough
	case 2:
		k.a1 = t.Args[1].ID
		fallthrough
	case 1:
		k.a0 = t.Args[0].ID
	case 0:
	default:
		panic("smt: too many args")
	}
	if e, ok := c.tab[k]; ok {
		return e
	}
	t.ID = len(c.terms)
	c.terms = append(c.terms, t)
	c.tab[k] = t
	if t.Op == OpVar {
		c.Vars = append(c.Vars, t)
	}
	return t
}

func mask(w Sort) uint64 {
	if w >= 64 {
		return ^uint64(0)
	}
	if w == 0 {
		return 1
	}
	return (uint64(1) << w) - 1
}

func (t *Term) IsConst() bool { return t.Op == OpConst }

func (c *Ctx) Bool(b bool) *Term {
	if b {
		return c.True
	}
	return c.False
}

func (c *Ctx) BV(v uint64, w Sort) *Term {
	if w == 0 {
		panic("BV width 0")
	}
	return c.mk(&Term{Op: OpConst, Sort: w, Val: v & mask(w)})
}

func (c *Ctx) Var(name string, w Sort) *Term {
	return c.mk(&Term{Op: OpVar, Sort: w, Name: name})
}

func sext64(v uint64, w Sort) int64 {
	if w >= 64 {
		return int64(v)
	}
	sh := 64 - uint(w)
	return int64(v<<sh) >> sh
}

func (c *Ctx) Not(a *Term) *Term {
	if a.Sort != 0 {
		panic("Not on non-bool")
	}
	if a.IsConst() {
		return c.Bool(a.Val == 0)
	}
	if a.Op == OpNot {
		return a.Args[0]
	}
	return c.mk(&Term{Op: OpNot, Sort: 0, Args: []*Term{a}})
}

func (c *Ctx) And(a, b *Term) *Term {
	if a.IsConst() {
		if a.Val == 0 {
			return c.False
		}
		return b
	}
	if b.IsConst() {
		if b.Val == 0 {
			return c.False
		}
		return a
	}
	if a == b {
		return a
	}
	if (a.Op == OpNot && a.Args[0] == b) || (b.Op == OpNot && b.Args[0] == a) {
		return c.False
	}
	if a.ID > b.ID {
		a, b = b, a
	}
	return c.mk(&Term{Op: OpAnd, Sort: 0, Args: []*Term{a, b}})
}

func (c *Ctx) Or(a, b *Term) *Term {
	if a.IsConst() {
		if a.Val == 1 {
			return c.True
		}
		return b
	}
	if b.IsConst() {
		if b.Val == 1 {
			return c.True
		}
		return a
	}
	if a == b {
		return a
	}
	if (a.Op == OpNot && a.Args[0] == b) || (b.Op == OpNot && b.Args[0] == a) {
		return c.True
	}
	if a.ID > b.ID {
		a, b = b, a
	}
	return c.mk(&Term{Op: OpOr, Sort: 0, Args: []*Term{a, b}})
}

func (c *Ctx) Implies(a, b *Term) *Term { return c.Or(c.Not(a), b) }

func (c *Ctx) Eq(a, b *Term) *Term {
	if a.Sort != b.Sort {
		panic(fmt.Sprintf("Eq sort mismatch %d %d", a.Sort, b.Sort))
	}
	if a == b {
		return c.True
	}
	if a.IsConst() && b.IsConst() {
		return c.Bool(a.Val == b.Val)
	}
	if a.Sort == 0 {
		// boolean equality
		if a.IsConst() {
			if a.Val == 1 {
				return b
			}
			return c.Not(b)
		}
		if b.IsConst() {
			if b.Val == 1 {
				return a
			}
			return c.Not(a)
		}
	}
	// ite(c, k1, k2) == k  with constants
	if b.IsConst() && a.Op == OpIte && a.Args[1].IsConst() && a.Args[2].IsConst() {
		t, e := a.Args[1].Val == b.Val, a.Args[2].Val == b.Val
		switch {
		case t && e:
			return c.True
		case t:
			return a.Args[0]
		case e:
			return c.Not(a.Args[0])
		default:
			return c.False
		}
	}
	if a.IsConst() && b.Op == OpIte {
		return c.Eq(b, a)
	}
	// zext(x) == const
	if b.IsConst() && a.Op == OpZext {
		inner := a.Args[0]
		if b.Val > mask(inner.Sort) {
			return c.False
		}
		return c.Eq(inner, c.BV(b.Val, inner.Sort))
	}
	if a.IsConst() && b.Op == OpZext {
		return c.Eq(b, a)
	}
	if a.ID > b.ID {
		a, b = b, a
	}
	return c.mk(&Term{Op: OpEq, Sort: 0, Args: []*Term{a, b}})
}

func (c *Ctx) Ite(cond, a, b *Term) *Term {
	if a.Sort != b.Sort {
		panic("Ite sort mismatch")
	}
	if cond.IsConst() {
		if cond.Val == 1 {
			return a
		}
		return b
	}
	if a == b {
		return a
	}
	if a.Sort == 0 {
		if a.IsConst() && b.IsConst() {
			if a.Val == 1 {
				return cond
			}
			return c.Not(cond)
		}
		if a.IsConst() {
			if a.Val == 1 {
				return c.Or(cond, b)
			}
			return c.And(c.Not(cond), b)
		}
		if b.IsConst() {
			if b.Val == 1 {
				return c.Or(c.Not(cond), a)
			}
			return c.And(cond, a)
		}
	}
	if cond.Op == OpNot {
		return c.Ite(cond.Args[0], b, a)
	}
	return c.mk(&Term{Op: OpIte, Sort: a.Sort, Args: []*Term{cond, a, b}})
}

func foldBin(op Op, w Sort, x, y uint64) (uint64, bool) {
	m := mask(w)
	switch op {
	case OpAdd:
		return (x + y) & m, true
	case OpSub:
		return (x - y) & m, true
	case OpMul:
		return (x * y) & m, true
	case OpUdiv:
		if y == 0 {
			return m, true
		}
		return x / y, true
	case OpUrem:
		if y == 0 {
			return x, true
		}
		return x % y, true
	case OpSdiv:
		sx, sy := sext64(x, w), sext64(y, w)
		if sy == 0 {
			if sx >= 0 {
				return m, true
			}
			return 1, true
		}
		if sy == -1 {
			return uint64(-sx) & m, true
		}
		return uint64(sx/sy) & m, true
	case OpSrem:
		sx, sy := sext64(x, w), sext64(y, w)
		if sy == 0 {
			return x, true
		}
		if sy == -1 {
			return 0, true
		}
		return uint64(sx%sy) & m, true
	case OpBAnd:
		return x & y, true
	case OpBOr:
		return x | y, true
	case OpBXor:
		return x ^ y, true
	case OpShl:
		if y >= uint64(w) {
			return 0, true
		}
		return (x << y) & m, true
	case OpLshr:
		if y >= uint64(w) {
			return 0, true
		}
		return x >> y, true
	case OpAshr:
		sx := sext64(x, w)
		if y >= uint64(w) {
			y = uint64(w) - 1
		}
		return uint64(sx>>y) & m, true
	case OpUlt:
		return b2u(x < y), true
	case OpUle:
		return b2u(x <= y), true
	case OpSlt:
		return b2u(sext64(x, w) < sext64(y, w)), true
	case OpSle:
		return b2u(sext64(x, w) <= sext64(y, w)), true
	}
	return 0, false
}

func b2u(b bool) uint64 {
	if b {
		return 1
	}
	return 0
}

// Bin builds a binary bit-vector operation (arith, bitwise, shifts, comparisons).
func (c *Ctx) Bin(op Op, a, b *Term) *Term {
	if a.Sort != b.Sort || a.Sort == 0 {
		panic(fmt.Sprintf("Bin %s sort mismatch %d %d", opNames[op], a.Sort, b.Sort))
	}
	w := a.Sort
	rs := w
	switch op {
	case OpUlt, OpUle, OpSlt, OpSle:
		rs = 0
	}
	if a.IsConst() && b.IsConst() {
		v, ok := foldBin(op, w, a.Val, b.Val)
		if !ok {
			panic("bad op")
		}
		if rs == 0 {
			return c.Bool(v == 1)
		}
		return c.BV(v, w)
	}
	switch op {
	case OpAdd:
		if a.IsConst() && a.Val == 0 {
			return b
		}
		if b.IsConst() && b.Val == 0 {
			return a
		}
		// (x + k1) + k2
		if b.IsConst() && a.Op == OpAdd && a.Args[1].IsConst() {
			return c.Bin(OpAdd, a.Args[0], c.BV(a.Args[1].Val+b.Val, w))
		}
		if a.IsConst() {
			a, b = b, a
		}
	case OpSub:
		if b.IsConst() && b.Val == 0 {
			return a
		}
		if a == b {
			return c.BV(0, w)
		}
		if b.IsConst() {
			return c.Bin(OpAdd, a, c.BV(-b.Val, w))
		}
	case OpMul:
		if a.IsConst() {
			a, b = b, a
		}
		if b.IsConst() {
			if b.Val == 0 {
				return b
			}
			if b.Val == 1 {
				return a
			}
		}
	case OpBAnd:
		if a.IsConst() {
			a, b = b, a
		}
		if b.IsConst() {
			if b.Val == 0 {
				return b
			}
			if b.Val == mask(w) {
				return a
			}
		}
		if a == b {
			return a
		}
	case OpBOr:
		if a.IsConst() {
			a, b = b, a
		}
		if b.IsConst() {
			if b.Val == 0 {
				return a
			}
			if b.Val == mask(w) {
				return b
			}
		}
		if a == b {
			return a
		}
	case OpBXor:
		if a.IsConst() {
			a, b = b, a
		}
		if b.IsConst() && b.Val == 0 {
			return a
		}
		if a == b {
			return c.BV(0, w)
		}
	case OpShl, OpLshr, OpAshr:
		if b.IsConst() && b.Val == 0 {
			return a
		}
		if a.IsConst() && a.Val == 0 {
			return a
		}
		if b.IsConst() && b.Val >= uint64(w) && op != OpAshr {
			return c.BV(0, w)
		}
	case OpUlt:
		if a == b {
			return c.False
		}
		if b.IsConst() && b.Val == 0 {
			return c.False
		}
		if a.IsConst() && a.Val == mask(w) {
			return c.False
		}
		// zext(x) < k  where k > max(x)
		if b.IsConst() && a.Op == OpZext && b.Val > mask(a.Args[0].Sort) {
			return c.True
		}
		if b.IsConst() && a.Op == OpZext {
			return c.Bin(OpUlt, a.Args[0], c.BV(b.Val, a.Args[0].Sort))
		}
		if a.IsConst() && b.Op == OpZext {
			if a.Val >= mask(b.Args[0].Sort) {
				return c.False
			}
			return c.Bin(OpUlt, c.BV(a.Val, b.Args[0].Sort), b.Args[0])
		}
	case OpUle:
		// canonical form: a <= b  ==  not (b < a)
		return c.Not(c.Bin(OpUlt, b, a))
	case OpSlt:
		if a == b {
			return c.False
		}
		// both zero-extended (non-negative): compare unsigned
		if za, zb := nonNeg(a), nonNeg(b); za && zb {
			return c.Bin(OpUlt, a, b)
		}
	case OpSle:
		return c.Not(c.Bin(OpSlt, b, a))
	}
	return c.mk(&Term{Op: op, Sort: rs, Args: []*Term{a, b}})
}

// nonNeg reports that the top bit of t is known to be zero.
func nonNeg(t *Term) bool {
	if t.IsConst() {
		return t.Val>>(uint(t.Sort)-1) == 0
	}
	if t.Op == OpZext && t.P1 > 0 {
		return true
	}
	return false
}

func (c *Ctx) BNot(a *Term) *Term {
	if a.IsConst() {
		return c.BV(^a.Val, a.Sort)
	}
	if a.Op == OpBNot {
		return a.Args[0]
	}
	return c.mk(&Term{Op: OpBNot, Sort: a.Sort, Args: []*Term{a}})
}

func (c *Ctx) Neg(a *Term) *Term {
	if a.IsConst() {
		return c.BV(-a.Val, a.Sort)
	}
	return c.mk(&Term{Op: OpNeg, Sort: a.Sort, Args: []*Term{a}})
}

func (c *Ctx) Extract(a *Term, hi, lo int) *Term {
	if hi < lo || hi >= int(a.Sort) {
		panic("bad extract")
	}
	w := Sort(hi - lo + 1)
	if w == a.Sort {
		return a
	}
	if a.IsConst() {
		return c.BV(a.Val>>uint(lo), w)
	}
	if a.Op == OpZext || a.Op == OpSext {
		inner := a.Args[0]
		if hi < int(inner.Sort) {
			return c.Extract(inner, hi, lo)
		}
		if a.Op == OpZext && lo >= int(inner.Sort) {
			return c.BV(0, w)
		}
		if lo == 0 {
			if a.Op == OpZext {
				return c.Zext(inner, w)
			}
			return c.Sext(inner, w)
		}
	}
	if a.Op == OpExtract {
		return c.Extract(a.Args[0], hi+a.P2, lo+a.P2)
	}
	return c.mk(&Term{Op: OpExtract, Sort: w, Args: []*Term{a}, P1: hi, P2: lo})
}

// Zext zero-extends a to width w (w >= a.Sort).
func (c *Ctx) Zext(a *Term, w Sort) *Term {
	if w == a.Sort {
		return a
	}
	if w < a.Sort {
		panic("Zext narrower")
	}
	if a.IsConst() {
		return c.BV(a.Val, w)
	}
	if a.Op == OpZext {
		return c.Zext(a.Args[0], w)
	}
	return c.mk(&Term{Op: OpZext, Sort: w, Args: []*Term{a}, P1: int(w - a.Sort)})
}

func (c *Ctx) Sext(a *Term, w Sort) *Term {
	if w == a.Sort {
		return a
	}
	if w < a.Sort {
		panic("Sext narrower")
	}
	if a.IsConst() {
		return c.BV(uint64(sext64(a.Val, a.Sort)), w)
	}
	if a.Op == OpZext && a.P1 > 0 {
		return c.Zext(a.Args[0], w)
	}
	return c.mk(&Term{Op: OpSext, Sort: w, Args: []*Term{a}, P1: int(w - a.Sort)})
}

func (c *Ctx) Concat(a, b *Term) *Term {
	w := a.Sort + b.Sort
	if a.IsConst() && b.IsConst() {
		return c.BV(a.Val<<uint(b.Sort)|b.Val, w)
	}
	return c.mk(&Term{Op: OpConcat, Sort: w, Args: []*Term{a, b}})
}

// Eval evaluates t under model (variables absent from the model are 0).
func (c *Ctx) Eval(t *Term, model map[*Term]uint64) uint64 {
	c.epoch++
	return c.eval(t, model)
}

func (c *Ctx) eval(t *Term, model map[*Term]uint64) uint64 {
	if t.Op == OpConst {
		return t.Val
	}
	if t.evalEpoch == c.epoch {
		return t.evalVal
	}
	var r uint64
	switch t.Op {
	case OpVar:
		r = model[t] & mask(t.Sort)
	case OpNot:
		r = 1 - c.eval(t.Args[0], model)
	case OpAnd:
		r = c.eval(t.Args[0], model)
		if r == 1 {
			r = c.eval(t.Args[1], model)
		}
	case OpOr:
		r = c.eval(t.Args[0], model)
		if r == 0 {
			r = c.eval(t.Args[1], model)
		}
	case OpEq:
		r = b2u(c.eval(t.Args[0], model) == c.eval(t.Args[1], model))
	case OpIte:
		if c.eval(t.Args[0], model) == 1 {
			r = c.eval(t.Args[1], model)
		} else {
			r = c.eval(t.Args[2], model)
		}
	case OpBNot:
		r = ^c.eval(t.Args[0], model) & mask(t.Sort)
	case OpNeg:
		r = -c.eval(t.Args[0], model) & mask(t.Sort)
	case OpExtract:
		r = (c.eval(t.Args[0], model) >> uint(t.P2)) & mask(t.Sort)
	case OpZext:
		r = c.eval(t.Args[0], model)
	case OpSext:
		r = uint64(sext64(c.eval(t.Args[0], model), t.Args[0].Sort)) & mask(t.Sort)
	case OpConcat:
		r = c.eval(t.Args[0], model)<<uint(t.Args[1].Sort) | c.eval(t.Args[1], model)
	default:
		x, y := c.eval(t.Args[0], model), c.eval(t.Args[1], model)
		v, ok := foldBin(t.Op, t.Args[0].Sort, x, y)
		if !ok {
			panic("eval: bad op")
		}
		r = v
	}
	t.evalEpoch = c.epoch
	t.evalVal = r
	return r
}

func sortStr(s Sort) string {
	if s == 0 {
		return "Bool"
	}
	return fmt.Sprintf("(_ BitVec %d)", s)
}

func constStr(t *Term) string {
	if t.Sort == 0 {
		if t.Val == 1 {
			return "true"
		}
		return "false"
	}
	if t.Sort%4 == 0 {
		return fmt.Sprintf("#x%0*x", int(t.Sort)/4, t.Val)
	}
	return fmt.Sprintf("#b%0*b", int(t.Sort), t.Val)
}

func smtName(t *Term) string {
	switch t.Op {
	case OpConst:
		return constStr(t)
	case OpVar:
		return "|" + t.Name + "|"
	}
	return fmt.Sprintf("t%d", t.ID)
}

// body prints the one-level definition of t in terms of the names of its children.
func body(t *Term) string {
	var sb strings.Builder
	switch t.Op {
	case OpExtract:
		fmt.Fprintf(&sb, "((_ extract %d %d) %s)", t.P1, t.P2, smtName(t.Args[0]))
	case OpZext:
		fmt.Fprintf(&sb, "((_ zero_extend %d) %s)", t.P1, smtName(t.Args[0]))
	case OpSext:
		fmt.Fprintf(&sb, "((_ sign_extend %d) %s)", t.P1, smtName(t.Args[0]))
	default:
		sb.WriteString("(")
		sb.WriteString(opNames[t.Op])
		for _, a := range t.Args {
			sb.WriteString(" ")
			sb.WriteString(smtName(a))
		}
		sb.WriteString(")")
	}
	return sb.String()
}

// String renders t fully inlined (debugging / evidence samples).
func (t *Term) String() string {
	switch t.Op {
	case OpConst:
		return constStr(t)
	case OpVar:
		return t.Name
	case OpExtract:
		return fmt.Sprintf("((_ extract %d %d) %s)", t.P1, t.P2, t.Args[0])
	case OpZext:
		return fmt.Sprintf("((_ zero_extend %d) %s)", t.P1, t.Args[0])
	case OpSext:
		return fmt.Sprintf("((_ sign_extend %d) %s)", t.P1, t.Args[0])
	}
	var sb strings.Builder
	sb.WriteString("(")
	sb.WriteString(opNames[t.Op])
	for _, a := range t.Args {
		sb.WriteString(" ")
		sb.WriteString(a.String())
	}
	sb.WriteString(")")
	return sb.String()
}

// Subst rebuilds t with the variables in bind replaced by constants (re-simplifying on the way).
// memo must be a map private to the current binding set.
func (c *Ctx) Subst(t *Term, bind map[*Term]*Term, memo map[*Term]*Term) *Term {
	if t.Op == OpConst {
		return t
	}
	if r, ok := memo[t]; ok {
		return r
	}
	var r *Term
	switch t.Op {
	case OpVar:
		if b, ok := bind[t]; ok {
			r = b
		} else {
			r = t
		}
	default:
		args := make([]*Term, len(t.Args))
		changed := false
		for i, a := range t.Args {
			args[i] = c.Subst(a, bind, memo)
			if args[i] != a {
				changed = true
			}
		}
		if !changed {
			r = t
			break
		}
		switch t.Op {
		case OpNot:
			r = c.Not(args[0])
		case OpAnd:
			r = c.And(args[0], args[1])
		case OpOr:
			r = c.Or(args[0], args[1])
		case OpEq:
			r = c.Eq(args[0], args[1])
		case OpIte:
			r = c.Ite(args[0], args[1], args[2])
		case OpBNot:
			r = c.BNot(args[0])
		case OpNeg:
			r = c.Neg(args[0])
		case OpExtract:
			r = c.Extract(args[0], t.P1, t.P2)
		case OpZext:
			r = c.Zext(args[0], t.Sort)
		case OpSext:
			r = c.Sext(args[0], t.Sort)
		case OpConcat:
			r = c.Concat(args[0], args[1])
		default:
			r = c.Bin(t.Op, args[0], args[1])
		}
	}
	memo[t] = r
	return r
}
