package smt

import "testing"

func TestBasic(t *testing.T) {
	for _, kind := range []string{"z3", "z3-new", "cvc5"} {
		c := NewCtx()
		s, err := NewSolver(c, kind, 10000)
		if err != nil {
			t.Fatal(err)
		}
		x := c.Var("x[0]", 8)
		y := c.Var("y", 8)
		pc := []*Term{c.Bin(OpUlt, x, c.BV(10, 8)), c.Eq(c.Bin(OpAdd, x, y), c.BV(200, 8))}
		s.SyncTo(pc)
		r, m := s.Check(nil, true)
		if r != Sat {
			t.Fatalf("%s: %v %s", kind, r, s.LastErr)
		}
		if (m[x]+m[y])&0xff != 200 || m[x] >= 10 {
			t.Fatalf("bad model %v", m)
		}
		r, _ = s.Check(c.Bin(OpUlt, y, c.BV(100, 8)), false)
		if r != Unsat {
			t.Fatalf("%s: want unsat got %v", kind, r)
		}
		s.SyncTo(pc[:1])
		r, m = s.Check(c.Eq(x, c.BV(3, 8)), true)
		if r != Sat || m[x] != 3 {
			t.Fatalf("%s: %v %v", kind, r, m)
		}
		b := c.Var("b", 0)
		s.SyncTo([]*Term{c.Ite(b, c.Eq(x, c.BV(1, 8)), c.Eq(x, c.BV(2, 8))), c.Not(b)})
		r, m = s.Check(nil, true)
		if r != Sat || m[x] != 2 || m[b] != 0 {
			t.Fatalf("%s: %v %v", kind, r, m)
		}
		s.Close()
	}
}
