package smt

import (
	"bufio"
	"fmt"
	"io"
	"os/exec"
	"strconv"
	"strings"
	"time"
)

type Result int

const (
	Unsat Result = iota
	Sat
	Unknown
)

func (r Result) String() string { return [...]string{"unsat", "sat", "unknown"}[r] }

// Solver drives one long-lived SMT solver process over a pipe.  Terms are sent as a DAG:
// every compound term is defined once (define-fun tN) with global declarations, so pushes and
// pops only affect assertions.
type Solver struct {
	Kind    string
	cmd     *exec.Cmd
	in      *bufio.Writer
	inRaw   io.WriteCloser
	out     *bufio.Reader
	defined map[int]bool
	stack   []*Term // asserted conjuncts, one push level each
	pending []*Term // conjuncts not yet sent
	ctx     *Ctx

	Queries   int
	SatN      int
	UnsatN    int
	UnknownN  int
	Time      time.Duration
	TimeoutMs int
	Log       io.Writer // optional: transcript of everything sent
	LastErr   string
}

func solverArgs(kind string, timeoutMs int) (string, []string) {
	switch kind {
	case "z3":
		return "z3", []string{"-in", fmt.Sprintf("-t:%d", timeoutMs)}
	case "z3-new":
		return "z3-new", []string{"-in", fmt.Sprintf("-t:%d", timeoutMs)}
	case "cvc5":
		return "cvc5", []string{"--incremental", "--lang=smt2", "--produce-models", fmt.Sprintf("--tlimit-per=%d", timeoutMs)}
	}
	panic("unknown solver " + kind)
}

func NewSolver(ctx *Ctx, kind string, timeoutMs int) (*Solver, error) {
	bin, args := solverArgs(kind, timeoutMs)
	cmd := exec.Command(bin, args...)
	stdin, err := cmd.StdinPipe()
	if err != nil {
		return nil, err
	}
	stdout, err := cmd.StdoutPipe()
	if err != nil {
		return nil, err
	}
	cmd.Stderr = nil
	if err := cmd.Start(); err != nil {
		return nil, err
	}
	s := &Solver{Kind: kind, cmd: cmd, in: bufio.NewWriterSize(stdin, 1<<16), inRaw: stdin, out: bufio.NewReaderSize(stdout, 1<<16),
		defined: map[int]bool{}, ctx: ctx, TimeoutMs: timeoutMs}
	s.send("(set-option :global-declarations true)\n")
	s.send("(set-option :produce-models true)\n")
	if kind == "cvc5" {
		s.send("(set-logic QF_BV)\n")
	}
	return s, nil
}

func (s *Solver) Close() {
	if s.cmd != nil {
		s.inRaw.Close()
		s.cmd.Process.Kill()
		s.cmd.Wait()
		s.cmd = nil
	}
}

func (s *Solver) send(str string) {
	s.in.WriteString(str)
	if s.Log != nil {
		io.WriteString(s.Log, str)
	}
}

// define makes sure t (and its sub-DAG) has been declared/defined in the solver.
func (s *Solver) define(t *Term) {
	if t.Op == OpConst || s.defined[t.ID] {
		return
	}
	// iterative post-order to avoid deep recursion on long ite chains
	type fr struct {
		t *Term
		i int
	}
	st := []fr{{t, 0}}
	for len(st) > 0 {
		top := &st[len(st)-1]
		if top.t.Op == OpConst || s.defined[top.t.ID] {
			st = st[:len(st)-1]
			continue
		}
		if top.i < len(top.t.Args) {
			a := top.t.Args[top.i]
			top.i++
			if a.Op != OpConst && !s.defined[a.ID] {
				st = append(st, fr{a, 0})
			}
			continue
		}
		tt := top.t
		if tt.Op == OpVar {
			s.send(fmt.Sprintf("(declare-const %s %s)\n", smtName(tt), sortStr(tt.Sort)))
		} else {
			s.send(fmt.Sprintf("(define-fun %s () %s %s)\n", smtName(tt), sortStr(tt.Sort), body(tt)))
		}
		s.defined[tt.ID] = true
		st = st[:len(st)-1]
	}
}

// SyncTo makes the solver's assertion stack equal to pc (lazily: new conjuncts are sent at the
// next Check).
func (s *Solver) SyncTo(pc []*Term) {
	// the logical stack = stack ++ pending
	all := len(s.stack) + len(s.pending)
	common := 0
	for common < all && common < len(pc) {
		var cur *Term
		if common < len(s.stack) {
			cur = s.stack[common]
		} else {
			cur = s.pending[common-len(s.stack)]
		}
		if cur != pc[common] {
			break
		}
		common++
	}
	if common < len(s.stack) {
		s.send(fmt.Sprintf("(pop %d)\n", len(s.stack)-common))
		s.stack = s.stack[:common]
		s.pending = s.pending[:0]
	} else {
		s.pending = s.pending[:common-len(s.stack)]
	}
	s.pending = append(s.pending, pc[common:]...)
}

func (s *Solver) flushPending() {
	for _, t := range s.pending {
		s.define(t)
		s.send("(push 1)\n(assert " + smtName(t) + ")\n")
		s.stack = append(s.stack, t)
	}
	s.pending = s.pending[:0]
}

func (s *Solver) readLine() (string, error) {
	line, err := s.out.ReadString('\n')
	return strings.TrimSpace(line), err
}

// Check decides satisfiability of (current stack ∧ extra); extra may be nil.
// If sat and wantModel, the values of all context variables defined in the solver are returned.
func (s *Solver) Check(extra *Term, wantModel bool) (Result, map[*Term]uint64) {
	start := time.Now()
	defer func() { s.Time += time.Since(start) }()
	s.Queries++
	s.flushPending()
	if extra != nil {
		s.define(extra)
		s.send("(push 1)\n(assert " + smtName(extra) + ")\n")
	}
	s.send("(check-sat)\n")
	s.in.Flush()
	res := Unknown
	line, err := s.readLine()
	for err == nil && line == "" {
		line, err = s.readLine()
	}
	switch {
	case err != nil:
		s.LastErr = "solver pipe: " + err.Error()
	case line == "sat":
		res = Sat
	case line == "unsat":
		res = Unsat
	case line == "unknown" || line == "timeout":
		res = Unknown
		s.LastErr = "solver answered " + line
	default:
		s.LastErr = "solver said: " + line
		// drain: an (error ...) line makes the query inconclusive
		res = Unknown
	}
	var model map[*Term]uint64
	if res == Sat && wantModel {
		model = s.getModel()
		if model == nil {
			res = Unknown
		}
	}
	if extra != nil {
		s.send("(pop 1)\n")
	}
	switch res {
	case Sat:
		s.SatN++
	case Unsat:
		s.UnsatN++
	default:
		s.UnknownN++
	}
	return res, model
}

func (s *Solver) getModel() map[*Term]uint64 {
	var vars []*Term
	for _, v := range s.ctx.Vars {
		if s.defined[v.ID] {
			vars = append(vars, v)
		}
	}
	model := map[*Term]uint64{}
	if len(vars) == 0 {
		return model
	}
	var sb strings.Builder
	sb.WriteString("(get-value (")
	for _, v := range vars {
		sb.WriteString(smtName(v))
		sb.WriteString(" ")
	}
	sb.WriteString("))\n")
	s.send(sb.String())
	s.in.Flush()
	// read until parentheses balance
	var acc strings.Builder
	depth := 0
	started := false
	for {
		line, err := s.out.ReadString('\n')
		if err != nil {
			s.LastErr = "solver pipe (model): " + err.Error()
			return nil
		}
		acc.WriteString(line)
		inBar := false
		for _, ch := range line {
			switch {
			case ch == '|':
				inBar = !inBar
			case inBar:
			case ch == '(':
				depth++
				started = true
			case ch == ')':
				depth--
			}
		}
		if started && depth <= 0 {
			break
		}
	}
	txt := acc.String()
	if strings.Contains(txt, "(error") {
		s.LastErr = "model error: " + txt
		return nil
	}
	byName := map[string]*Term{}
	for _, v := range vars {
		byName[v.Name] = v
	}
	toks := tokenize(txt)
	// grammar: ( ( name value ) ... ) where value is an atom or ( _ bvN w )
	for i := 0; i+2 < len(toks); i++ {
		if toks[i] != "(" || toks[i+1] == "(" || toks[i+1] == ")" {
			continue
		}
		name := toks[i+1]
		if name == "_" {
			continue
		}
		v := byName[name]
		if v == nil {
			continue
		}
		var val uint64
		var ok bool
		if toks[i+2] == "(" {
			if i+4 < len(toks) && toks[i+3] == "_" && strings.HasPrefix(toks[i+4], "bv") {
				n, err := strconv.ParseUint(toks[i+4][2:], 10, 64)
				val, ok = n, err == nil
			}
		} else {
			val, ok = parseVal(toks[i+2])
		}
		if !ok {
			s.LastErr = "cannot parse model value for " + name
			return nil
		}
		model[v] = val
	}
	return model
}

func tokenize(txt string) []string {
	var toks []string
	i := 0
	for i < len(txt) {
		ch := txt[i]
		switch {
		case ch == ' ' || ch == '\n' || ch == '\t' || ch == '\r':
			i++
		case ch == '(' || ch == ')':
			toks = append(toks, string(ch))
			i++
		case ch == '|':
			j := strings.IndexByte(txt[i+1:], '|')
			if j < 0 {
				return toks
			}
			toks = append(toks, txt[i+1:i+1+j])
			i += j + 2
		default:
			j := i
			for j < len(txt) && !strings.ContainsRune(" \n\t\r()", rune(txt[j])) {
				j++
			}
			toks = append(toks, txt[i:j])
			i = j
		}
	}
	return toks
}

func parseVal(tok string) (uint64, bool) {
	switch {
	case tok == "true":
		return 1, true
	case tok == "false":
		return 0, true
	case strings.HasPrefix(tok, "#x"):
		v, err := strconv.ParseUint(tok[2:], 16, 64)
		return v, err == nil
	case strings.HasPrefix(tok, "#b"):
		v, err := strconv.ParseUint(tok[2:], 2, 64)
		return v, err == nil
	}
	return 0, false
}

// Script renders a stand-alone SMT-LIB2 script deciding (pc ∧ extra), for cross-checking with
// other solvers.
func Script(pc []*Term, extra *Term) string {
	var sb strings.Builder
	done := map[int]bool{}
	var def func(t *Term)
	def = func(t *Term) {
		if t.Op == OpConst || done[t.ID] {
			return
		}
		type fr struct {
			t *Term
			i int
		}
		st := []fr{{t, 0}}
		for len(st) > 0 {
			top := &st[len(st)-1]
			if top.t.Op == OpConst || done[top.t.ID] {
				st = st[:len(st)-1]
				continue
			}
			if top.i < len(top.t.Args) {
				a := top.t.Args[top.i]
				top.i++
				if a.Op != OpConst && !done[a.ID] {
					st = append(st, fr{a, 0})
				}
				continue
			}
			tt := top.t
			if tt.Op == OpVar {
				fmt.Fprintf(&sb, "(declare-const %s %s)\n", smtName(tt), sortStr(tt.Sort))
			} else {
				fmt.Fprintf(&sb, "(define-fun %s () %s %s)\n", smtName(tt), sortStr(tt.Sort), body(tt))
			}
			done[tt.ID] = true
			st = st[:len(st)-1]
		}
	}
	for _, t := range pc {
		def(t)
		fmt.Fprintf(&sb, "(assert %s)\n", smtName(t))
	}
	if extra != nil {
		def(extra)
		fmt.Fprintf(&sb, "(assert %s)\n", smtName(extra))
	}
	sb.WriteString("(check-sat)\n")
	return sb.String()
}
