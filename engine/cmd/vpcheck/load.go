package main

import (
	"fmt"
	"os"
	"path/filepath"
	"sort"
	"strings"

	"golang.org/x/tools/go/packages"
	"golang.org/x/tools/go/ssa"
	"golang.org/x/tools/go/ssa/ssautil"
	"verif/engine/interp"
)

func goEnv() []string {
	return os.Environ()
}

// overlayFiles maps virtual paths under /repo to real files under /verif.
func overlayFiles(specs []HarnessSpec) map[string]string {
	m := map[string]string{
		filepath.Join(repoDir, "internal/vp/vp.go"):       filepath.Join(verifDir, "harness/vp/vp.go"),
		filepath.Join(repoDir, "internal/vpstub/stub.go"): filepath.Join(verifDir, "harness/vpstub/stub.go"),
	}
	for _, s := range specs {
		base := "zz_vp_" + strings.ReplaceAll(strings.TrimSuffix(s.File, ".go"), "/", "_") + ".go"
		m[filepath.Join(repoDir, s.Pkg, base)] = filepath.Join(verifDir, "harness", s.File)
		// helper files shared by the harnesses of a directory: <dir>/common_<pkgbase>.go
		dir := filepath.Dir(filepath.Join(verifDir, "harness", s.File))
		commons, _ := filepath.Glob(filepath.Join(dir, "common_*.go"))
		for _, c := range commons {
			m[filepath.Join(repoDir, s.Pkg, "zz_vp_"+filepath.Base(dir)+"_"+filepath.Base(c))] = c
		}
	}
	return m
}

func loadProgram(specs []HarnessSpec) (*interp.Program, error) {
	ov := overlayFiles(specs)
	overlay := map[string][]byte{}
	for virt, real := range ov {
		data, err := os.ReadFile(real)
		if err != nil {
			return nil, err
		}
		overlay[virt] = data
	}
	pats := map[string]bool{"./internal/vp": true, "./internal/vpstub": true}
	for _, s := range specs {
		pats["./"+s.Pkg] = true
	}
	var patterns []string
	for p := range pats {
		patterns = append(patterns, p)
	}
	sort.Strings(patterns)
	cfg := &packages.Config{
		Mode:    packages.LoadAllSyntax,
		Dir:     repoDir,
		Env:     goEnv(),
		Overlay: overlay,
	}
	pkgs, err := packages.Load(cfg, patterns...)
	if err != nil {
		return nil, err
	}
	var errs []string
	packages.Visit(pkgs, nil, func(p *packages.Package) {
		for _, e := range p.Errors {
			if len(errs) < 10 {
				errs = append(errs, e.Error())
			}
		}
	})
	if len(errs) > 0 {
		return nil, fmt.Errorf("%s", strings.Join(errs, "\n"))
	}
	prog, _ := ssautil.AllPackages(pkgs, ssa.InstantiateGenerics|ssa.SanityCheckFunctions&0)
	prog.Build()
	return &interp.Program{Prog: prog}, nil
}
