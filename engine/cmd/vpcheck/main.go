// vpcheck: bounded symbolic checking of corazawaf/coraza properties.
//
//	vpcheck run --property C14 --tier quick|thorough
//	vpcheck harness <name> [--tier t] [--trace]     (one harness, for development)
//	vpcheck replay <replay.json>                    (re-run a stored counterexample natively)
package main

import (
	"encoding/json"
	"flag"
	"fmt"
	"os"
	"path/filepath"
	"sort"
	"strconv"
	"strings"
	"time"

	"verif/engine/interp"
)

const (
	verifDir = "/verif"
	modPath  = "github.com/corazawaf/coraza/v3"
)

// repoDir is /repo; VERIF_REPO redirects a development run (trying a seeded change in a scratch
// worktree) to another checkout, in which case evidence goes to /verif/out/trial-evidence.
var repoDir = "/repo"

func init() {
	if r := os.Getenv("VERIF_REPO"); r != "" {
		repoDir = r
	}
}

// HarnessSpec is one row of checks/checks.json.
type HarnessSpec struct {
	Property string                    `json:"property"`
	Name     string                    `json:"name"`  // entry function
	Pkg      string                    `json:"pkg"`   // directory below /repo, e.g. internal/transformations
	File     string                    `json:"file"`  // harness source below /verif/harness
	Tiers    map[string]map[string]int `json:"tiers"` // tier -> params
	Steps    int64                     `json:"steps,omitempty"`
	Paths    map[string]int64          `json:"paths,omitempty"` // tier -> path budget
	Claim    string                    `json:"claim,omitempty"` // one-line statement of what the harness decides
	Outside  []string                  `json:"outside,omitempty"`
	Repeat   int                       `json:"repeat,omitempty"` // native replays (map-order dependent harnesses)
	Skip     map[string]bool           `json:"skip,omitempty"`   // tier -> skip
}

func loadSpecs() []HarnessSpec {
	var all []HarnessSpec
	files, _ := filepath.Glob(filepath.Join(verifDir, "checks", "*.json"))
	sort.Strings(files)
	for _, f := range files {
		data, err := os.ReadFile(f)
		if err != nil {
			fatal(2, "cannot read %s: %v", f, err)
		}
		var specs []HarnessSpec
		if err := json.Unmarshal(data, &specs); err != nil {
			fatal(2, "cannot parse %s: %v", f, err)
		}
		all = append(all, specs...)
	}
	return all
}

func fatal(code int, format string, args ...any) {
	fmt.Printf("INCONCLUSIVE: "+format+"\n", args...)
	os.Exit(code)
}

func main() {
	// the go command used for loading and native replay is go1.26.8 (GOTOOLCHAIN=local, offline)
	os.Setenv("PATH", "/opt/veriftools/go1.26.8/bin:"+os.Getenv("PATH"))
	os.Unsetenv("GOFLAGS")
	os.Setenv("GOTOOLCHAIN", "local")
	os.Setenv("GOPROXY", "off")
	if len(os.Args) < 2 {
		fmt.Println("usage: vpcheck run|harness|replay ...")
		os.Exit(2)
	}
	switch os.Args[1] {
	case "run":
		fs := flag.NewFlagSet("run", flag.ExitOnError)
		prop := fs.String("property", "", "property id")
		tier := fs.String("tier", "quick", "quick|thorough")
		only := fs.String("only", "", "comma-separated harness names (development)")
		fs.Parse(os.Args[2:])
		if t := os.Getenv("VERIF_TIER"); t != "" && *tier == "" {
			*tier = t
		}
		os.Exit(runProperty(*prop, *tier, *only))
	case "harness":
		fs := flag.NewFlagSet("harness", flag.ExitOnError)
		tier := fs.String("tier", "quick", "quick|thorough")
		trace := fs.Bool("trace", false, "trace")
		workers := fs.Int("workers", 0, "workers")
		noReplay := fs.Bool("noreplay", false, "skip native replay")
		fs.Parse(os.Args[3:])
		os.Exit(runSingle(os.Args[2], *tier, *trace, *workers, *noReplay))
	case "replay":
		os.Exit(replayFile(os.Args[2]))
	default:
		fmt.Println("unknown command")
		os.Exit(2)
	}
}

func seed() int {
	s, _ := strconv.Atoi(os.Getenv("VERIF_SEED"))
	return s
}

type harnessResult struct {
	spec     HarnessSpec
	sh       *interp.Shared
	wall     float64
	params   map[string]int
	replays  []replayOutcome
	witnessN int
}

func runSingle(name, tier string, trace bool, workers int, noReplay bool) int {
	specs := loadSpecs()
	var sel []HarnessSpec
	for _, s := range specs {
		if s.Name == name {
			sel = append(sel, s)
		}
	}
	if len(sel) == 0 {
		fatal(2, "no harness named %s", name)
	}
	prog, err := loadProgram(sel)
	if err != nil {
		fatal(2, "harness does not compile or load: %v", err)
	}
	r := runHarness(prog, sel[0], tier, trace, workers)
	printSummary(r)
	if !noReplay {
		doReplays(sel[0].Property, []*harnessResult{r}, tier)
		for _, o := range r.replays {
			fmt.Printf("replay %s %s: native=%s %q expected=%s %q => %s\n", o.kind, o.key, o.native.Outcome, o.native.Msg, o.expectOutcome, o.expectMsg, o.verdict)
		}
	}
	return 0
}

func printSummary(r *harnessResult) {
	sh := r.sh
	fmt.Printf("harness %s: paths=%d decisions=%d steps=%d maxPathSteps=%d queries=%d (sat %d unsat %d unknown %d) evalwitness=%d solver=%.1fs wall=%.1fs\n",
		r.spec.Name, sh.Paths, sh.Decisions, sh.Steps, sh.MaxPathSteps, sh.Queries, sh.SatN, sh.UnsatN, sh.UnknownN, sh.EvalWitness, sh.SolverTime, r.wall)
	fmt.Printf("  path ends: %v\n", sh.PathsEnded)
	for _, m := range sh.Inconclusive {
		fmt.Printf("  inconclusive: %s\n", m)
	}
	for _, v := range sh.SortedViolations() {
		fmt.Printf("  violation[%s] x%d: %s (%s)\n", v.Kind, v.Count, v.Msg, v.Where)
		for _, d := range v.Draws {
			fmt.Printf("      %s %s = %s\n", d.Kind, d.Tag, showDraw(d))
		}
	}
	var tags []string
	for t := range sh.Witnesses {
		tags = append(tags, t)
	}
	sort.Strings(tags)
	fmt.Printf("  reached: %v\n", tags)
}

func showDraw(d interp.Draw) string {
	switch d.Kind {
	case "bytes", "string":
		return fmt.Sprintf("%q", string(d.Bytes))
	}
	return fmt.Sprint(d.Int)
}

func runHarness(prog *interp.Program, spec HarnessSpec, tier string, trace bool, workers int) *harnessResult {
	params := spec.Tiers[tier]
	if params == nil {
		params = spec.Tiers["quick"]
	}
	if workers == 0 {
		workers = 16
		if w, err := strconv.Atoi(os.Getenv("VERIF_WORKERS")); err == nil && w > 0 {
			workers = w
		}
	}
	solverMs := 10000
	if tier == "thorough" {
		solverMs = 60000
	}
	cfg := interp.Config{
		Harness:     spec.Name,
		Entry:       entryOf(spec),
		Workers:     workers,
		StepBudget:  spec.Steps,
		PathBudget:  spec.Paths[tier],
		SolverMs:    solverMs,
		Params:      params,
		Trace:       trace,
		MaxViol:     50,
		KeepScripts: 6,
	}
	if trace {
		cfg.Workers = 1
	}
	start := time.Now()
	sh := interp.Run(prog, cfg)
	return &harnessResult{spec: spec, sh: sh, wall: time.Since(start).Seconds(), params: params}
}

// ---- property run ------------------------------------------------------------------------

func runProperty(prop, tier, only string) int {
	start := time.Now()
	specs := loadSpecs()
	var sel []HarnessSpec
	onlySet := map[string]bool{}
	for _, n := range strings.Split(only, ",") {
		if n != "" {
			onlySet[n] = true
		}
	}
	for _, s := range specs {
		if s.Property != prop || s.Skip[tier] {
			continue
		}
		if len(onlySet) > 0 && !onlySet[s.Name] {
			continue
		}
		sel = append(sel, s)
	}
	if len(sel) == 0 {
		fatal(2, "no harness registered for property %s", prop)
	}
	os.RemoveAll(outDirFor(prop))
	prog, err := loadProgram(sel)
	if err != nil {
		fatal(2, "harness does not compile or load against /repo: %v", err)
	}
	var results []*harnessResult
	for _, s := range sel {
		r := runHarness(prog, s, tier, false, 0)
		printSummary(r)
		results = append(results, r)
	}
	inconclusive := false
	for _, r := range results {
		if len(r.sh.Inconclusive) > 0 {
			inconclusive = true
		}
		if _, ok := r.sh.Witnesses["end"]; !ok && len(r.sh.Inconclusive) == 0 && len(r.sh.Violations) == 0 {
			fmt.Printf("INCONCLUSIVE: vacuity: harness %s never reached its end\n", r.spec.Name)
			inconclusive = true
		}
	}
	// native replay of counterexamples and vacuity witnesses
	mismatch := doReplays(prop, results, tier)

	// the other solvers decide a sample of the verdict queries again
	cross := crossCheck(prop, results)
	for _, d := range cross.Disagree {
		fmt.Printf("INCONCLUSIVE: solver disagreement on a query z3 answered unsat: %s\n", d)
		inconclusive = true
	}

	known := loadKnown()
	violations := 0
	knownSeen := map[string]bool{}
	var violLines []string
	for _, r := range results {
		for _, o := range r.replays {
			if o.kind != "violation" {
				continue
			}
			switch o.verdict {
			case "confirmed":
				if kf := known.match(prop, r.spec.Name, o.expectMsg); kf != nil {
					if !knownSeen[kf.raw] {
						knownSeen[kf.raw] = true
						fmt.Printf("KNOWN-FINDING: property=%s %s\n", prop, kf.text)
					}
					continue
				}
				violations++
				violLines = append(violLines, fmt.Sprintf("VIOLATION property=%s replay=%s", prop, o.path))
				fmt.Printf("  counterexample (%s): %s\n", r.spec.Name, o.expectMsg)
			}
		}
	}
	writeEvidence(prop, tier, results, violations, knownSeen, time.Since(start).Seconds(), inconclusive || mismatch, cross)
	for _, l := range violLines {
		fmt.Println(l)
	}
	switch {
	case violations > 0:
		return 1
	case mismatch:
		fmt.Println("ENCODING-MISMATCH: a solver model did not reproduce against the native build (see above)")
		return 3
	case inconclusive:
		fmt.Println("INCONCLUSIVE: see above; nothing is claimed for this run")
		return 2
	}
	fmt.Printf("OK property=%s tier=%s harnesses=%d wall=%.1fs\n", prop, tier, len(results), time.Since(start).Seconds())
	return 0
}

// ---- known findings ----------------------------------------------------------------------

type knownFinding struct {
	property string
	harness  string
	msg      string
	text     string
	raw      string
}

type knownSet struct{ list []knownFinding }

// known-findings.txt lines:
//
//	known: property=C07 harness=VpC07Setvar msg="panic in ..." :: free text
//	fixed: property=C07 <commit> free text
func loadKnown() *knownSet {
	ks := &knownSet{}
	data, err := os.ReadFile(filepath.Join(verifDir, "known-findings.txt"))
	if err != nil {
		return ks
	}
	for _, line := range strings.Split(string(data), "\n") {
		line = strings.TrimSpace(line)
		if !strings.HasPrefix(line, "known:") {
			continue
		}
		rest := strings.TrimSpace(strings.TrimPrefix(line, "known:"))
		kf := knownFinding{raw: line}
		if i := strings.Index(rest, "::"); i >= 0 {
			kf.text = strings.TrimSpace(rest[i+2:])
			rest = rest[:i]
		}
		// msg="..." may contain spaces
		if i := strings.Index(rest, "msg=\""); i >= 0 {
			j := strings.LastIndex(rest, "\"")
			if j > i+5 {
				kf.msg = rest[i+5 : j]
				rest = rest[:i]
			}
		}
		for _, f := range strings.Fields(rest) {
			switch {
			case strings.HasPrefix(f, "property="):
				kf.property = strings.TrimPrefix(f, "property=")
			case strings.HasPrefix(f, "harness="):
				kf.harness = strings.TrimPrefix(f, "harness=")
			}
		}
		if kf.text == "" {
			kf.text = kf.harness + ": " + kf.msg
		}
		ks.list = append(ks.list, kf)
	}
	return ks
}

func (ks *knownSet) match(prop, harness, msg string) *knownFinding {
	for i := range ks.list {
		k := &ks.list[i]
		if k.property == prop && k.harness == harness && k.msg == msg {
			return k
		}
	}
	return nil
}

func entryOf(spec HarnessSpec) string {
	if spec.Pkg == "." || spec.Pkg == "" {
		return modPath + "." + spec.Name
	}
	return modPath + "/" + spec.Pkg + "." + spec.Name
}

// outDirFor: scratch directory of a property run (separate for trial runs on another checkout).
func outDirFor(prop string) string {
	if repoDir != "/repo" {
		return filepath.Join(verifDir, "out", "trial", prop)
	}
	return filepath.Join(verifDir, "out", prop)
}
