package main

import (
	"encoding/json"
	"fmt"
	"os"
	"path/filepath"
	"sort"
	"strings"

	"verif/engine/interp"
)

func writeEvidence(prop, tier string, results []*harnessResult, violations int, knownSeen map[string]bool, wall float64, inconclusive bool, cross *crossResult) {
	var states, transitions, traces, queries, sat, unsat, unknown, steps int64
	var solverTime float64
	var samples []any
	funcs := map[string]int64{}
	stubs := map[string]int64{}
	var harnesses []any
	var assumptions []string
	var outside []string
	for _, r := range results {
		sh := r.sh
		states += sh.Paths
		transitions += sh.Decisions
		traces += int64(r.witnessN)
		queries += sh.Queries
		sat += sh.SatN
		unsat += sh.UnsatN
		unknown += sh.UnknownN
		steps += sh.Steps
		solverTime += sh.SolverTime
		for f, n := range sh.FuncSteps {
			if strings.Contains(f, "corazawaf/coraza") && !strings.Contains(f, "/internal/vp") {
				funcs[f] += n
			}
		}
		for s, n := range sh.Stubs {
			stubs[s] += n
		}
		var tags []string
		for t := range sh.Witnesses {
			tags = append(tags, t)
		}
		sort.Strings(tags)
		for k, t := range tags {
			if k < 2 || t == "end" {
				w := sh.Witnesses[t]
				samples = append(samples, map[string]any{"harness": r.spec.Name, "reached": t, "input": drawsSample(w.Draws), "observations": w.Obs})
			}
		}
		var viol []any
		for _, v := range sh.SortedViolations() {
			viol = append(viol, map[string]any{"kind": v.Kind, "msg": v.Msg, "count": v.Count, "input": drawsSample(v.Draws)})
		}
		var rp []any
		for _, o := range r.replays {
			rp = append(rp, map[string]any{"kind": o.kind, "key": o.key, "verdict": o.verdict, "native_outcome": o.native.Outcome})
		}
		harnesses = append(harnesses, map[string]any{
			"name": r.spec.Name, "package": r.spec.Pkg, "claim": r.spec.Claim, "bounds": r.params,
			"paths": sh.Paths, "branch_decisions": sh.Decisions, "instructions": sh.Steps, "max_path_instructions": sh.MaxPathSteps,
			"path_ends": sh.PathsEnded, "queries": sh.Queries, "feasibility_by_evaluated_witness": sh.EvalWitness, "solver_time_s": round2(sh.SolverTime), "wall_s": round2(r.wall),
			"inconclusive": sh.Inconclusive, "violations": viol, "native_replays": rp,
		})
		if r.spec.Claim != "" {
			assumptions = append(assumptions, fmt.Sprintf("%s: %s; bounds %v", r.spec.Name, r.spec.Claim, r.params))
		}
		outside = append(outside, r.spec.Outside...)
	}
	if len(samples) == 0 {
		samples = append(samples, map[string]any{"note": "no path reached a witness point"})
	}
	type kv struct {
		k string
		v int64
	}
	var fl []kv
	for k, v := range funcs {
		fl = append(fl, kv{k, v})
	}
	sort.Slice(fl, func(a, b int) bool { return fl[a].v > fl[b].v })
	var funcList []string
	for i, e := range fl {
		if i >= 80 {
			break
		}
		funcList = append(funcList, fmt.Sprintf("%s (%d instr)", e.k, e.v))
	}
	var stubList []string
	for k := range stubs {
		stubList = append(stubList, k)
	}
	sort.Strings(stubList)
	var known []string
	for k := range knownSeen {
		known = append(known, k)
	}
	sort.Strings(known)
	assumptions = append(assumptions,
		"bounded claim: holds for every value of every symbolic input within the stated shape bounds; nothing is claimed outside them",
		"trusted: go/packages+go/types+go/ssa (SSA construction), the interpreter's concrete semantics (cross-checked by native replay of witnesses), z3 4.8.12",
		"environment stubs listed under coverage.stubs are part of the claim")
	ev := map[string]any{
		"property_id": prop,
		"tier":        tier,
		"seed":        seed(),
		"level":       "model_checking",
		"coverage": map[string]any{
			"states":                        max64(states, 0),
			"transitions":                   transitions,
			"traces_validated_against_impl": traces,
			"samples":                       samples,
			"exhaustive":                    !inconclusive,
			"explanation":                   "states = symbolic execution paths (each a class of inputs sharing one control path through the real SSA); transitions = solver-decided branch/choice/concretisation decisions; traces = solver models re-executed against the native build with identical observations",
			"harnesses":                     harnesses,
			"functions_encoded":             funcList,
			"stubs":                         stubList,
			"instructions_interpreted":      steps,
			"queries":                       map[string]any{"total": queries, "sat": sat, "unsat": unsat, "unknown": unknown},
			"solver_time_s":                 round2(solverTime),
			"cross_solver_check":            map[string]any{"note": "a sample of the queries answered unsat by z3 4.8.12 during the run, written as stand-alone QF_BV scripts and decided again by z3 5.1.0 (z3-new) and cvc5 1.0", "scripts": cross.Scripts, "answered_unsat": cross.Agree, "undecided": cross.Undecided, "disagreements": cross.Disagree},
			"outside_claim":                 outside,
			"known_findings_seen":           known,
			"inconclusive":                  inconclusive,
		},
		"assumptions": assumptions,
		"wall_s":      round2(wall),
		"violations":  violations,
	}
	evDir := filepath.Join(verifDir, "evidence")
	if repoDir != "/repo" {
		evDir = filepath.Join(verifDir, "out", "trial-evidence")
	}
	os.MkdirAll(evDir, 0o755)
	data, _ := json.MarshalIndent(ev, "", " ")
	os.WriteFile(filepath.Join(evDir, prop+".json"), data, 0o644)
}

func max64(a, b int64) int64 {
	if a > b {
		return a
	}
	return b
}

func round2(f float64) float64 { return float64(int64(f*100)) / 100 }

func drawsSample(ds []interp.Draw) []string {
	var out []string
	for _, d := range ds {
		out = append(out, fmt.Sprintf("%s %s=%s", d.Kind, d.Tag, showDraw(d)))
	}
	return out
}
