package main

import (
	"context"
	"fmt"
	"os"
	"os/exec"
	"path/filepath"
	"strings"
	"sync"
	"time"
)

// crossResult summarises the re-decision of the kept verdict queries by the other solvers.
type crossResult struct {
	Scripts   int            `json:"scripts"`
	Agree     map[string]int `json:"agree"`        // solver -> number of scripts answered unsat
	Undecided map[string]int `json:"undecided"`    // solver -> timeouts / unknown / errors
	Disagree  []string       `json:"disagreement"` // "solver: file" for every sat answer
}

var crossSolvers = [][]string{
	{"z3-new", "-T:20"},
	{"cvc5", "--lang=smt2", "--tlimit=20000"},
}

// crossCheck writes the unsat queries kept during the run as stand-alone SMT-LIB scripts and
// asks the other installed solvers (z3 5.1 and cvc5) to decide them again.  All of them were
// answered unsat by the run's z3 4.8: a sat answer from another solver is a disagreement and
// makes the run inconclusive.
func crossCheck(prop string, results []*harnessResult) *crossResult {
	cr := &crossResult{Agree: map[string]int{}, Undecided: map[string]int{}}
	dir := filepath.Join(outDirFor(prop), "scripts")
	_ = os.MkdirAll(dir, 0o755)
	type job struct {
		file   string
		solver []string
	}
	var jobs []job
	for _, r := range results {
		for k, txt := range r.sh.Scripts {
			f := filepath.Join(dir, fmt.Sprintf("%s-%d.smt2", r.spec.Name, k))
			body := "(set-logic QF_BV)\n" + txt + "\n"
			if err := os.WriteFile(f, []byte(body), 0o644); err != nil {
				continue
			}
			cr.Scripts++
			for _, s := range crossSolvers {
				if _, err := exec.LookPath(s[0]); err == nil {
					jobs = append(jobs, job{f, s})
				}
			}
		}
	}
	var mu sync.Mutex
	var wg sync.WaitGroup
	sem := make(chan struct{}, 16)
	for _, j := range jobs {
		wg.Add(1)
		sem <- struct{}{}
		go func(j job) {
			defer wg.Done()
			defer func() { <-sem }()
			ctx, cancel := context.WithTimeout(context.Background(), 30*time.Second)
			defer cancel()
			args := append(append([]string{}, j.solver[1:]...), j.file)
			out, _ := exec.CommandContext(ctx, j.solver[0], args...).CombinedOutput()
			ans := strings.TrimSpace(string(out))
			mu.Lock()
			defer mu.Unlock()
			switch {
			case strings.Contains(ans, "(error"):
				cr.Undecided[j.solver[0]]++
			case strings.HasPrefix(ans, "unsat"):
				cr.Agree[j.solver[0]]++
			case strings.HasPrefix(ans, "sat"):
				cr.Disagree = append(cr.Disagree, j.solver[0]+": "+j.file)
			default:
				cr.Undecided[j.solver[0]]++
			}
		}(j)
	}
	wg.Wait()
	return cr
}
