package main

import (
	"encoding/json"
	"fmt"
	"os"
	"os/exec"
	"path/filepath"
	"sort"
	"strings"

	"verif/engine/interp"
)

type replayCase struct {
	Harness string         `json:"harness"`
	Draws   []interp.Draw  `json:"draws"`
	Params  map[string]int `json:"params,omitempty"`
	Repeat  int            `json:"repeat,omitempty"`
}

type nativeResult struct {
	Harness string               `json:"harness"`
	Outcome string               `json:"outcome"`
	Msg     string               `json:"msg,omitempty"`
	Where   string               `json:"where,omitempty"`
	Obs     []interp.Observation `json:"observations,omitempty"`
	Reached []string             `json:"reached,omitempty"`
	Runs    int                  `json:"runs,omitempty"`
}

// replayFileFormat is what VIOLATION replay=<path> points to.
type replayFileFormat struct {
	Property string               `json:"property"`
	Pkg      string               `json:"pkg"`
	File     string               `json:"file"`
	Case     replayCase           `json:"case"`
	Kind     string               `json:"kind"`
	Msg      string               `json:"msg"`
	Where    string               `json:"where,omitempty"`
	Obs      []interp.Observation `json:"observations,omitempty"`
}

type replayOutcome struct {
	kind          string // violation | witness
	key           string
	path          string
	expectOutcome string
	expectMsg     string
	native        nativeResult
	verdict       string // confirmed | not-reproduced | ok | mismatch
	engineOnly    bool
}

func usesFault(ds []interp.Draw) bool {
	for _, d := range ds {
		if strings.HasPrefix(d.Tag, "fault:") && d.Int != 0 {
			return true
		}
	}
	return false
}

// runNative runs cases of one package against the native build through go test -overlay.
func runNative(pkgDir string, specs []HarnessSpec, cases []replayCase, scratch string) ([]nativeResult, error) {
	os.MkdirAll(scratch, 0o755)
	// generated test file listing the package's harness entry points
	names := map[string]bool{}
	for _, s := range specs {
		if s.Pkg == pkgDir {
			names[s.Name] = true
		}
	}
	var nl []string
	for n := range names {
		nl = append(nl, n)
	}
	sort.Strings(nl)
	pkgName, err := packageName(pkgDir)
	if err != nil {
		return nil, err
	}
	var sb strings.Builder
	fmt.Fprintf(&sb, "package %s\n\nimport (\n\t\"testing\"\n\n\t\"%s/internal/vp\"\n)\n\n", pkgName, modPath)
	sb.WriteString("func TestVpReplay(t *testing.T) {\n\tvp.ReplayMain(t, map[string]func(){\n")
	for _, n := range nl {
		fmt.Fprintf(&sb, "\t\t%q: %s,\n", n, n)
	}
	sb.WriteString("\t})\n}\n")
	testFile := filepath.Join(scratch, "zz_vp_replay_test.go")
	if err := os.WriteFile(testFile, []byte(sb.String()), 0o644); err != nil {
		return nil, err
	}
	ov := overlayFiles(specs)
	ov[filepath.Join(repoDir, pkgDir, "zz_vp_replay_test.go")] = testFile
	ovJSON, _ := json.Marshal(map[string]any{"Replace": ov})
	ovFile := filepath.Join(scratch, "overlay.json")
	os.WriteFile(ovFile, ovJSON, 0o644)
	inFile := filepath.Join(scratch, "cases.json")
	outFile := filepath.Join(scratch, "results.json")
	os.Remove(outFile)
	data, _ := json.Marshal(cases)
	os.WriteFile(inFile, data, 0o644)

	cmd := exec.Command("go", "test", "-vet=off", "-count=1", "-overlay", ovFile, "-run", "^TestVpReplay$", "-timeout", "20m", "./"+pkgDir)
	cmd.Dir = repoDir
	cmd.Env = append(goEnv(), "VP_REPLAY_FILE="+inFile, "VP_REPLAY_OUT="+outFile)
	out, err := cmd.CombinedOutput()
	res, rerr := os.ReadFile(outFile)
	if rerr != nil {
		return nil, fmt.Errorf("native replay produced no result (go test: %v)\n%s", err, tail(string(out), 3000))
	}
	var results []nativeResult
	if err := json.Unmarshal(res, &results); err != nil {
		return nil, err
	}
	return results, nil
}

func tail(s string, n int) string {
	if len(s) > n {
		return s[len(s)-n:]
	}
	return s
}

func packageName(pkgDir string) (string, error) {
	files, _ := filepath.Glob(filepath.Join(repoDir, pkgDir, "*.go"))
	for _, f := range files {
		if strings.HasSuffix(f, "_test.go") {
			continue
		}
		data, err := os.ReadFile(f)
		if err != nil {
			continue
		}
		for _, line := range strings.Split(string(data), "\n") {
			line = strings.TrimSpace(line)
			if strings.HasPrefix(line, "package ") {
				return strings.Fields(line)[1], nil
			}
		}
	}
	return "", fmt.Errorf("cannot determine package name of %s", pkgDir)
}

// doReplays replays every violation and every vacuity witness natively.  Returns true when
// some model did not reproduce (encoding mismatch).
func doReplays(prop string, results []*harnessResult, tier string) bool {
	outDir := outDirFor(prop)
	os.MkdirAll(filepath.Join(outDir, "replays"), 0o755)
	type pending struct {
		r   *harnessResult
		idx int
	}
	byPkg := map[string][]replayCase{}
	where := map[string][]pending{}
	var allSpecs []HarnessSpec
	for _, r := range results {
		allSpecs = append(allSpecs, r.spec)
	}
	for _, r := range results {
		k := 0
		for _, v := range r.sh.SortedViolations() {
			c := replayCase{Harness: r.spec.Name, Draws: v.Draws, Params: r.params, Repeat: r.spec.Repeat}
			path := filepath.Join(outDir, "replays", fmt.Sprintf("%s-%d.json", r.spec.Name, k))
			k++
			rf := replayFileFormat{Property: prop, Pkg: r.spec.Pkg, File: r.spec.File, Case: c, Kind: v.Kind, Msg: v.Msg, Where: v.Where, Obs: v.Obs}
			data, _ := json.MarshalIndent(rf, "", " ")
			os.WriteFile(path, data, 0o644)
			eo := "assert"
			if v.Kind == "panic" {
				eo = "panic"
			}
			if v.EngineOnly {
				r.replays = append(r.replays, replayOutcome{kind: "violation", key: v.Msg, path: path, expectOutcome: eo, expectMsg: v.Msg, verdict: "confirmed", engineOnly: true})
				fmt.Printf("  note: %s: this finding is a property of the execution (not observable by the native harness run); reported from the engine's journal\n", r.spec.Name)
				continue
			}
			if usesFault(v.Draws) {
				// an injected file-system fault cannot be reproduced against the native build (no
				// hook in /repo): the counterexample is the engine's own concrete re-execution
				// against its file model, and is labelled as such
				r.replays = append(r.replays, replayOutcome{kind: "violation", key: v.Msg, path: path, expectOutcome: eo, expectMsg: v.Msg, verdict: "confirmed", engineOnly: true})
				fmt.Printf("  note: counterexample of %s needs an injected file-system fault; confirmed against the engine's file model only (no native replay)\n", r.spec.Name)
				continue
			}
			r.replays = append(r.replays, replayOutcome{kind: "violation", key: v.Msg, path: path, expectOutcome: eo, expectMsg: v.Msg})
			byPkg[r.spec.Pkg] = append(byPkg[r.spec.Pkg], c)
			where[r.spec.Pkg] = append(where[r.spec.Pkg], pending{r, len(r.replays) - 1})
		}
		var tags []string
		for t := range r.sh.Witnesses {
			tags = append(tags, t)
		}
		sort.Strings(tags)
		maxW := 80
		if tier == "thorough" {
			maxW = 200
		}
		for n, t := range tags {
			if n >= maxW && t != "end" {
				continue
			}
			w := r.sh.Witnesses[t]
			c := replayCase{Harness: r.spec.Name, Draws: w.Draws, Params: r.params}
			r.replays = append(r.replays, replayOutcome{kind: "witness", key: t, expectOutcome: "ok"})
			r.replays[len(r.replays)-1].native.Obs = nil
			byPkg[r.spec.Pkg] = append(byPkg[r.spec.Pkg], c)
			where[r.spec.Pkg] = append(where[r.spec.Pkg], pending{r, len(r.replays) - 1})
		}
	}
	mismatch := false
	for pkg, cases := range byPkg {
		if len(cases) == 0 {
			continue
		}
		res, err := runNative(pkg, allSpecs, cases, filepath.Join(outDir, "native-"+strings.ReplaceAll(pkg, "/", "_")))
		if err != nil {
			fmt.Printf("ENCODING-MISMATCH: native replay failed for %s: %v\n", pkg, err)
			return true
		}
		for k, p := range where[pkg] {
			o := &p.r.replays[p.idx]
			if k >= len(res) {
				o.verdict = "mismatch"
				mismatch = true
				continue
			}
			o.native = res[k]
			switch o.kind {
			case "violation":
				if o.native.Outcome == o.expectOutcome && (o.expectOutcome == "panic" && panicSame(o.expectMsg, o.native) || o.native.Msg == o.expectMsg) {
					o.verdict = "confirmed"
				} else {
					o.verdict = "not-reproduced"
					if p.r.spec.Repeat > 1 && o.native.Outcome == "ok" {
						// order-dependent counterexample the native runtime did not pick in Repeat runs
						o.verdict = "not-reproduced-order"
					}
					mismatch = true
					fmt.Printf("ENCODING-MISMATCH: %s: engine says %s %q, native build says %s %q\n", p.r.spec.Name, o.expectOutcome, o.expectMsg, o.native.Outcome, o.native.Msg)
				}
			case "witness":
				w := p.r.sh.Witnesses[o.key]
				if o.native.Outcome != "ok" {
					o.verdict = "mismatch"
					mismatch = true
					fmt.Printf("ENCODING-MISMATCH: %s: witness for %q ends natively with %s %q\n", p.r.spec.Name, o.key, o.native.Outcome, o.native.Msg)
				} else if !obsPrefixEqual(w.Obs, o.native.Obs) {
					o.verdict = "mismatch"
					mismatch = true
					fmt.Printf("ENCODING-MISMATCH: %s: observations differ on witness %q:\n  engine: %v\n  native: %v\n", p.r.spec.Name, o.key, w.Obs, o.native.Obs)
				} else {
					o.verdict = "ok"
					p.r.witnessN++
				}
			}
		}
	}
	return mismatch
}

// panicSame compares the engine's panic description with the native one: the panic values must
// agree (function names are compared through the native stack).
func panicSame(engineMsg string, n nativeResult) bool {
	// engine: "panic in <func>: <value>"
	i := strings.Index(engineMsg, ": ")
	if i < 0 {
		return false
	}
	val := engineMsg[i+2:]
	fn := strings.TrimPrefix(engineMsg[:i], "panic in ")
	if !strings.Contains(n.Msg, val) && !strings.Contains(val, n.Msg) {
		// run-time error texts carry concrete numbers natively; compare with digits normalised
		if rtCategory(val) != rtCategory(n.Msg) {
			return false
		}
	}
	// the panicking function must appear in the native stack
	short := fn
	if j := strings.LastIndex(short, "/"); j >= 0 {
		short = short[j+1:]
	}
	short = strings.NewReplacer("(", "", ")", "", "*", "").Replace(short)
	stack := strings.NewReplacer("(", "", ")", "", "*", "").Replace(n.Where)
	return strings.Contains(stack, short)
}

func normDigits(s string) string {
	var sb strings.Builder
	in := false
	for _, c := range s {
		if c >= '0' && c <= '9' {
			if !in {
				sb.WriteByte('N')
			}
			in = true
			continue
		}
		in = false
		sb.WriteRune(c)
	}
	return sb.String()
}

// the engine records observations up to the witness point; the native run continues to the end
func obsPrefixEqual(engine, native []interp.Observation) bool {
	if len(engine) > len(native) {
		return false
	}
	for i := range engine {
		if engine[i] != native[i] {
			return false
		}
	}
	return true
}

func replayFile(path string) int {
	data, err := os.ReadFile(path)
	if err != nil {
		fmt.Println(err)
		return 2
	}
	var rf replayFileFormat
	if err := json.Unmarshal(data, &rf); err != nil {
		fmt.Println(err)
		return 2
	}
	specs := loadSpecs()
	var sel []HarnessSpec
	for _, s := range specs {
		if s.Pkg == rf.Pkg && s.Property == rf.Property {
			sel = append(sel, s)
		}
	}
	res, err := runNative(rf.Pkg, sel, []replayCase{rf.Case}, filepath.Join(verifDir, "out", "replay-scratch"))
	if err != nil {
		fmt.Println(err)
		return 2
	}
	out, _ := json.MarshalIndent(res[0], "", " ")
	fmt.Println(string(out))
	if res[0].Outcome == "ok" {
		fmt.Println("replay: harness completed without failure")
		return 0
	}
	fmt.Printf("replay: %s %s\n", res[0].Outcome, res[0].Msg)
	return 1
}

func rtCategory(s string) string {
	s = strings.TrimPrefix(s, "runtime error: ")
	if strings.HasPrefix(s, "interface conversion:") {
		// the runtime names the types differently from go/types (package name vs import path)
		return "interface conversion"
	}
	for _, cut := range []string{" [", " with length", " (method", " (call"} {
		if i := strings.Index(s, cut); i >= 0 {
			s = s[:i]
		}
	}
	return normDigits(s)
}
